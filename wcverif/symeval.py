"""Decision-table extraction (`dt`) and flag flow (`flagflow`).

A small abstract evaluator over the AST of *small, loop-light* functions.  Values are concrete constants, symbolic
bit-vectors (flag words whose unknown bits are "whatever the caller passed"), opaque atoms and symbolic token strings.
Whenever a branch needs the truth value of something unknown, the evaluation is forked on that *atom*; the result
is the complete decision table of the function over its atoms.  Atoms are never evaluated on concrete strings or paths
-- this extracts branch structure, it does not execute the library.
"""
from __future__ import annotations

import ast
from dataclasses import dataclass, field
from typing import Any, Callable

from .vocabulary import PINNED_FUNCTIONS
from .model import (AnalysisError, ClassRef, ConstEval, ExtRef, FuncInfo, FuncRef, ModRef, RegexConst, Repo, Unknown,
                    norm_src)

WIDTH = 48
ALL = (1 << WIDTH) - 1


class NeedDecision(Exception):
    def __init__(self, atom: str) -> None:
        super().__init__(atom)
        self.atom = atom


class Raised(Exception):
    """The evaluated code raises."""

    def __init__(self, exc: str, node: ast.AST | None = None) -> None:
        super().__init__(exc)
        self.exc = exc
        self.node = node


class _Return(Exception):
    def __init__(self, value: Any) -> None:
        self.value = value


class _Break(Exception):
    pass


class _Continue(Exception):
    pass


@dataclass(frozen=True)
class BV:
    """Bit-vector derived from parameter `origin`: bits in `known` have the value in `val`, others equal the input."""

    origin: str
    val: int = 0
    known: int = 0

    def must_set(self, bits: int) -> bool:
        return (self.known & bits) == bits and (self.val & bits) == bits

    def must_clear(self, bits: int) -> bool:
        return (self.known & bits) == bits and (self.val & bits) == 0

    def passthrough(self) -> int:
        return ALL & ~self.known


@dataclass(frozen=True)
class Opaque:
    tag: str

    def __repr__(self) -> str:
        return f'<{self.tag}>'


@dataclass(frozen=True, repr=False, eq=False)
class Grown(Opaque):
    """An unknown list that the evaluated code appended to: `base` is the tag of the list before, `items` what was appended since.
    Behaves as the opaque value `tag`; only `''.join` looks inside (join(xs + [a]) == join(xs) + a)."""
    base: str = ''
    items: tuple = ()

    def __eq__(self, other: Any) -> bool:
        return isinstance(other, Opaque) and other.tag == self.tag

    def __hash__(self) -> int:
        return hash((self.tag,))


@dataclass(frozen=True)
class Tok:
    """Symbolic string: concatenation of named tokens / literal pieces."""

    parts: tuple

    def __repr__(self) -> str:
        return '+'.join(map(str, self.parts)) if self.parts else "''"


class MList(list):
    """A list object created by the evaluated code.  Appends are applied to it; `unknown` means it may hold further
    (unknown) elements behind the known ones, because it is filled inside a loop or handed to code that is not followed."""

    __hash__ = None  # type: ignore[assignment]

    def __init__(self, items: Any = (), ident: str = 'list') -> None:
        super().__init__(items)
        self.ident = ident
        self.unknown = False
        self.grown = False  # something was appended after the contents became unknown: certainly non-empty

    def forget(self) -> None:
        del self[:]
        self.unknown = True
        self.grown = False


class MSet:
    """A set object created by the evaluated code (`set()`): members added so far, possibly more."""

    def __init__(self, items: Any = (), ident: str = 'set') -> None:
        self.items = list(items)
        self.ident = ident
        self.unknown = False


@dataclass
class Closure:
    """A nested function together with the frame that defined it (it reads that frame's variables)."""
    fn: FuncInfo
    frame: Any


@dataclass
class BoundBuiltin:
    obj: Any
    attr: str


@dataclass
class Obj:
    cls: tuple[str, str] | None  # (module, class)
    attrs: dict[str, Any] = field(default_factory=dict)
    name: str = 'self'
    default_attr: Callable[[str], Any] | None = None


@dataclass
class BoundMethod:
    obj: Obj
    fn: FuncInfo


@dataclass
class Path:
    decisions: dict[str, bool]
    ret: Any = None
    raised: str | None = None
    attrs: dict[str, Any] = field(default_factory=dict)
    locals: dict[str, Any] = field(default_factory=dict)
    calls: list[tuple[ast.Call, str, list, dict]] = field(default_factory=list)
    yields: list[Any] = field(default_factory=list)
    events: list[tuple] = field(default_factory=list)  # ('call'|'yield'|'store'|'return'|'raise', ...), in execution order

    def of(self, kind: str) -> list[tuple]:
        return [e for e in self.events if e[0] == kind]

    def calls_to(self, pred: Any) -> list[tuple]:
        """[(name, args, kwargs, ctx)] of call events whose callee name satisfies pred (str or callable)."""
        f = (lambda n: n == pred) if isinstance(pred, str) else pred
        return [(e[1], e[2], e[3], e[5]) for e in self.events if e[0] == 'call' and f(e[1])]


def tok(name: str) -> Tok:
    return Tok((name,))


class SymEval:
    def __init__(self, repo: Repo, bitnames: dict[int, str] | None = None,
                 call_models: dict[str, Callable] | None = None,
                 atom_map: Callable[[ast.AST, 'Frame'], str | None] | None = None,
                 inline: bool = True, max_paths: int = 4096, watch_calls: bool = False,
                 no_inline: set[str] | None = None, inline_only: set[str] | None = None, loop_mode: Any = 'once',
                 explore_handlers: bool = False) -> None:
        self.repo = repo
        self.bitnames = bitnames or default_bitnames(repo)
        self.call_models = call_models or {}
        self.atom_map = atom_map
        self.inline = inline
        self.max_paths = max_paths
        self.watch_calls = watch_calls
        self.no_inline = no_inline or set()
        self.inline_only = inline_only
        self.explore_handlers = explore_handlers
        self.loop_mode = loop_mode  # 'once': run the body once from an arbitrary iteration; 'skip': only forget what it changes
        self.decisions: dict[str, bool] = {}
        self.used: list[str] = []
        self.calls: list = []
        self.yields: list = []
        self.events: list = []
        self.ctx: list = []
        self.fresh: dict[str, int] = {}
        self.depth = 0

    # ------------------------------------------------------------------ driver
    def tabulate(self, fn: FuncInfo, args: dict[str, Any], self_obj: Obj | None = None,
                 preset: dict[str, bool] | None = None) -> list[Path]:
        paths: list[Path] = []
        stack: list[dict[str, bool]] = [dict(preset or {})]
        while stack:
            dec = stack.pop()
            if len(paths) + len(stack) > self.max_paths:
                raise AnalysisError(f'decision table of {fn.fq} exceeds {self.max_paths} paths')
            self.decisions = dec
            _CURRENT[0] = dec
            self.calls = []
            self.yields = []
            self.events = []
            self.ctx = []
            self.fresh = {}
            obj = None
            if self_obj is not None:
                obj = Obj(self_obj.cls, dict(self_obj.attrs), self_obj.name, self_obj.default_attr)
            a2 = {k: self._instantiate(v) for k, v in args.items()}
            if obj is not None:
                for k in list(obj.attrs):
                    obj.attrs[k] = self._instantiate(obj.attrs[k])
            try:
                frame = Frame(self, fn, a2, obj)
                try:
                    ret = frame.run()
                    self.events.append(('return', ret))
                    paths.append(Path(dict(dec), ret=ret, attrs=dict(obj.attrs) if obj else {},
                                      locals=dict(frame.locals), calls=list(self.calls), yields=list(self.yields),
                                      events=list(self.events)))
                except Raised as r:
                    self.events.append(('raise', r.exc))
                    paths.append(Path(dict(dec), raised=r.exc, attrs=dict(obj.attrs) if obj else {},
                                      locals=dict(frame.locals), calls=list(self.calls), yields=list(self.yields),
                                      events=list(self.events)))
            except NeedDecision as nd:
                for v in (False, True):
                    d2 = dict(dec)
                    d2[nd.atom] = v
                    stack.append(d2)
        return paths

    def _instantiate(self, v: Any) -> Any:
        """Apply decided bits to a fresh parameter bit-vector."""
        if isinstance(v, BV) and v.known == 0 and v.val == 0:
            val = known = 0
            for atom, d in self.decisions.items():
                if atom.startswith(f'bit:{v.origin}:'):
                    bit = int(atom.rsplit(':', 1)[1], 16)
                    known |= bit
                    if d:
                        val |= bit
            return BV(v.origin, val, known)
        return v

    def new_ident(self, kind: str) -> str:
        k = self.fresh.get(kind, 0) + 1
        self.fresh[kind] = k
        return f'{kind}#{k}'

    def decide(self, atom: str) -> bool:
        if atom in self.decisions:
            return self.decisions[atom]
        raise NeedDecision(atom)

    def bitname(self, bit: int) -> str:
        return self.bitnames.get(bit, hex(bit))


def default_bitnames(repo: Repo) -> dict[int, str]:
    out: dict[int, str] = {}
    env = repo.mod('_wcparse').env
    for k, v in env.items():
        if isinstance(v, int) and not isinstance(v, bool) and v > 0 and v & (v - 1) == 0 and k.isupper() and \
                k not in ('PATTERN_LIMIT',) and v not in out:
            out[v] = k
    for mod, names in (('glob', ('MARK', 'SCANDOTDIR', '_PATHLIB')),
                       ('wcmatch', ('DIRPATHNAME', 'FILEPATHNAME', 'SYMLINKS', 'HIDDEN', 'RECURSIVE'))):
        for n in names:
            v = repo.mod(mod).env.get(n)
            if isinstance(v, int) and v not in out:
                out[v] = f'{mod}.{n}'
    return out


def atom_pretty(atom: str, bitnames: dict[int, str]) -> str:
    if atom.startswith('bit:'):
        _b, origin, hx = atom.split(':')
        return f'{origin}&{bitnames.get(int(hx, 16), hx)}'
    return atom


class Frame:
    def __init__(self, ev: SymEval, fn: FuncInfo, args: dict[str, Any], self_obj: Obj | None) -> None:
        self.ev = ev
        self.fn = fn
        self.mod = ev.repo.mod(fn.module)
        self.const = ConstEval(ev.repo, self.mod)
        self.locals: dict[str, Any] = {}
        self.self_obj = self_obj
        params = fn.params()
        defaults = fn.param_defaults()
        is_method = fn.cls is not None and fn.parent is None and params and params[0] in ('self', 'cls')
        if is_method:
            self.locals[params[0]] = self_obj if self_obj is not None else Obj((fn.module, fn.cls))
            params = params[1:]
        for p in params:
            if p in args:
                self.locals[p] = args[p]
            elif p in defaults:
                self.locals[p] = self.eval(defaults[p])
            else:
                self.locals[p] = Opaque(p)

    # ------------------------------------------------------------------ statements
    def run(self) -> Any:
        ev = self.ev
        ev.depth += 1
        if ev.depth > 12:
            raise AnalysisError('symbolic evaluation recursion too deep')
        try:
            body = self.fn.node.body
            if not isinstance(body, list):
                return self.eval(body)
            self.block(body)
        except _Return as r:
            return r.value
        finally:
            ev.depth -= 1
        return None

    def block(self, body: list[ast.stmt]) -> None:
        for st in body:
            self.stmt(st)

    def stmt(self, st: ast.stmt) -> None:
        if isinstance(st, ast.Expr):
            if isinstance(st.value, ast.Constant):
                return
            self.eval(st.value)
        elif isinstance(st, ast.Assign):
            v = self.eval(st.value)
            for t in st.targets:
                self.assign(t, v)
        elif isinstance(st, ast.AnnAssign):
            if st.value is not None:
                self.assign(st.target, self.eval(st.value))
        elif isinstance(st, ast.AugAssign):
            cur = self.eval(_as_load(st.target))
            v = self.binop(st.op, cur, self.eval(st.value), st)
            self.assign(st.target, v)
        elif isinstance(st, ast.If):
            if self.truth(st.test):
                self.block(st.body)
            else:
                self.block(st.orelse)
        elif isinstance(st, ast.Return):
            raise _Return(self.eval(st.value) if st.value is not None else None)
        elif isinstance(st, ast.Raise):
            name = 'reraise'
            if st.exc is not None:
                tgt = st.exc.func if isinstance(st.exc, ast.Call) else st.exc
                name = norm_src(tgt).split('.')[-1]
            raise Raised(name, st)
        elif isinstance(st, ast.Pass):
            return
        elif isinstance(st, (ast.For, ast.While)):
            self.loop(st)
        elif isinstance(st, ast.Try):
            if self.ev.explore_handlers and st.handlers:
                k = self.ev.fresh.get('try', 0) + 1
                self.ev.fresh['try'] = k
                for hi, h in enumerate(st.handlers):
                    hname = 'any' if h.type is None else norm_src(h.type).split('.')[-1]
                    atom = f'raises(try#{k})' if hi == 0 else f'raises(try#{k}):{hname}'
                    if self.ev.decide(atom):
                        # the protected block failed at its first operation: none of its effects, then this handler
                        if h.name:
                            self.locals[h.name] = Opaque('exc')
                        self.ev.events.append(('except', k, st, hname, tuple(self.ev.ctx)))
                        self.block(h.body)
                        self.block(st.finalbody)
                        return
            try:
                self.block(st.body)
            except Raised as r:
                caught = False
                for h in st.handlers:
                    names = []
                    if h.type is not None:
                        names = [norm_src(x).split('.')[-1] for x in
                                 (h.type.elts if isinstance(h.type, ast.Tuple) else [h.type])]
                    if h.type is None or r.exc in names or 'Exception' in names or 'BaseException' in names:
                        caught = True
                        if h.name:
                            self.locals[h.name] = Opaque('exc')
                        self.block(h.body)
                        break
                if not caught:
                    raise
            else:
                self.block(st.orelse)
            self.block(st.finalbody)
        elif isinstance(st, ast.With):
            for it in st.items:
                v = self.eval(it.context_expr)
                if it.optional_vars is not None:
                    self.assign(it.optional_vars, v)
            self.block(st.body)
        elif isinstance(st, ast.Break):
            raise _Break()
        elif isinstance(st, ast.Continue):
            raise _Continue()
        elif isinstance(st, ast.FunctionDef):
            q = f'{self.fn.qualname.split("::")[0]}.{st.name}'
            if self.ev.repo.has_func(self.fn.module, q):
                self.locals[st.name] = Closure(self.ev.repo.func(self.fn.module, q), self)
            else:
                self.locals[st.name] = Opaque(f'def {st.name}')
        elif isinstance(st, ast.ClassDef):
            self.locals[st.name] = Opaque(f'def {st.name}')
        elif isinstance(st, ast.Delete):
            # `del xs[a:b]` / `del xs[k]` on an unknown container is an effect on it (recorded like a mutator call)
            for t in st.targets:
                if isinstance(t, ast.Subscript):
                    base = self.eval(t.value)
                    if isinstance(base, Opaque):
                        idx = norm_src(t.slice)
                        self.ev.events.append(('call', f'{base.tag}.__delitem__', [Opaque(idx)], {}, st, tuple(self.ev.ctx)))
                        if self.ev.watch_calls:
                            self.ev.calls.append((st, f'{base.tag}.__delitem__', [Opaque(idx)], {}))
                        if isinstance(t.value, ast.Name):
                            self.locals[t.value.id] = Opaque(base.tag + "'")
        elif isinstance(st, (ast.Global, ast.Nonlocal, ast.Import, ast.ImportFrom, ast.Assert)):
            return
        else:
            raise AnalysisError(f'{self.fn.fq}: statement {type(st).__name__} not supported by the decision-table extractor')

    def quiet(self, node: ast.AST) -> Any:
        """Value of a test expression without branching on it: a single comparison of symbolic operands stays a symbolic
        boolean named after the comparison (used where the test is an element predicate, not a branch of this path)."""
        if isinstance(node, ast.Compare) and len(node.ops) == 1:
            left, right = self.eval(node.left), self.eval(node.comparators[0])
            if any(isinstance(x, (Opaque, Tok, Obj, BV)) for x in (left, right)):
                sym = {ast.Eq: '==', ast.NotEq: '!=', ast.In: 'in', ast.NotIn: 'not in', ast.Is: 'is', ast.IsNot: 'is not', ast.Lt: '<',
                       ast.LtE: '<=', ast.Gt: '>', ast.GtE: '>='}[type(node.ops[0])]
                return Opaque(f'{_tag(left)} {sym} {_tag(right)}')
        return self.eval(node)

    def _search_loop(self, st: ast.For) -> bool:
        """`for x in IT: if P(x): <flags := constants>; break` is `if any(P(x) for x in IT): <flags := constants>`.

        Evaluated exactly like the builtin spelling, so both give the same atom and the same effects.
        """
        body = [s for s in st.body if not (isinstance(s, ast.Expr) and isinstance(s.value, ast.Constant))]
        if len(body) != 1 or not isinstance(body[0], ast.If) or body[0].orelse:
            return False
        # `for ..: if P: break` + `else: <stmts>`: the else part runs iff nothing was found
        if st.orelse and not (len(body[0].body) == 1 and isinstance(body[0].body[0], ast.Break)):
            return False
        test = body[0].test
        if not isinstance(test, (ast.Call, ast.Attribute, ast.Name)) and not (isinstance(test, ast.Compare) and len(test.ops) == 1):
            return False
        acts = body[0].body
        if not acts or not isinstance(acts[-1], (ast.Break, ast.Return)):
            return False
        if isinstance(acts[-1], ast.Return) and not (acts[-1].value is None or isinstance(acts[-1].value, ast.Constant)):
            return False
        for a in acts[:-1]:
            if not (isinstance(a, ast.Assign) and len(a.targets) == 1 and isinstance(a.targets[0], ast.Name) and
                    isinstance(a.value, ast.Constant)):
                return False
        saved = dict(self.locals)
        it = self.eval(st.iter)
        self.assign(st.target, Opaque(f'elem({_tag(it)})'))
        self.ev.ctx.append(f'for:{_tag(it)}')
        try:
            v = self.quiet(test)
        finally:
            self.ev.ctx.pop()
        for k in {x.id for x in ast.walk(st.target) if isinstance(x, ast.Name)}:
            if k in saved:
                self.locals[k] = saved[k]
            else:
                self.locals.pop(k, None)
        if self.truth_value(Opaque(f'any(comp({_tag(v)} for {_tag(it)}))')):
            for a in acts[:-1]:
                self.locals[a.targets[0].id] = a.value.value
            if isinstance(acts[-1], ast.Return):
                raise _Return(acts[-1].value.value if acts[-1].value is not None else None)
        elif st.orelse:
            self.block(st.orelse)
        return True

    def loop(self, st: ast.For | ast.While) -> None:
        """Abstract a loop: run the body once with an opaque element, then weaken what the body changed."""
        mode0 = self.ev.loop_mode(st) if callable(self.ev.loop_mode) else self.ev.loop_mode
        if isinstance(st, ast.For) and mode0 != 'skip' and self._search_loop(st):
            return
        before = dict(self.locals)
        before_attrs = dict(self.self_obj.attrs) if self.self_obj else {}
        if isinstance(st, ast.For):
            it = self.eval(st.iter)
            self.assign(st.target, Opaque(f'elem({_tag(it)})'))
            self.ev.ctx.append(f'for:{_tag(it)}')
        else:
            self.ev.ctx.append('while')
        tag = f'loop@{norm_src(st.target) if isinstance(st, ast.For) else "while"}'
        # an arbitrary iteration: whatever the body (re)binds has an unknown value on entry
        bound: set[str] = set()
        battrs: set[str] = set()
        for x in _walk_stmts(st.body):
            if isinstance(x, ast.Name) and isinstance(x.ctx, ast.Store):
                bound.add(x.id)
            elif isinstance(x, ast.Attribute) and isinstance(x.ctx, ast.Store) and isinstance(x.value, ast.Name) and \
                    x.value.id == 'self':
                battrs.add(x.attr)
        tgt_names = {x.id for x in ast.walk(st.target) if isinstance(x, ast.Name)} if isinstance(st, ast.For) else set()
        for k in bound - tgt_names:
            if k in self.locals and not isinstance(self.locals[k], Obj):
                self.locals[k] = Opaque(f'{tag}:{k}')
        if self.self_obj:
            for k in battrs:
                if k in self.self_obj.attrs:
                    self.self_obj.attrs[k] = Opaque(f'{tag}:self.{k}')
        touched: set[str] = set()
        for x in _walk_stmts(st.body):
            if isinstance(x, ast.Call):
                if isinstance(x.func, ast.Attribute) and x.func.attr in LIST_MUTATORS:
                    touched.add(norm_src(x.func.value))
                for a_ in list(x.args) + [k.value for k in x.keywords]:
                    if isinstance(a_, (ast.Name, ast.Attribute)):
                        touched.add(norm_src(a_))
            elif isinstance(x, ast.Subscript) and isinstance(x.ctx, (ast.Store, ast.Del)):
                touched.add(norm_src(x.value))
        for t in touched:
            try:
                v = self.locals.get(t) if t.isidentifier() else (
                    self.self_obj.attrs.get(t[5:]) if self.self_obj and t.startswith('self.') and t[5:].isidentifier() else None)
            except Exception:
                v = None
            if isinstance(v, (MList, MSet)):
                v.unknown = True
        mode = self.ev.loop_mode(st) if callable(self.ev.loop_mode) else self.ev.loop_mode
        if mode == 'skip':
            self.ev.ctx.pop()
            self.ev.events.append(('loop', st, tuple(self.ev.ctx)))
            for k in bound:
                if k in self.locals and not isinstance(self.locals[k], Obj):
                    self.locals[k] = Opaque(f'{tag}:{k}')
            return
        if isinstance(st, ast.While):
            try:
                if not self.truth(st.test):
                    self.ev.ctx.pop()
                    if st.orelse:
                        self.block(st.orelse)
                    return
            except AnalysisError:
                pass
        try:
            try:
                self.block(st.body)
                ended = 'next'
            except _Continue:
                ended = 'next'
            except _Break:
                ended = 'break'
            # the state in which this (arbitrary) iteration hands over to the next one / leaves the loop
            self.ev.events.append(('iterend', st, ended, {k: self.locals.get(k) for k in sorted(bound)}, tuple(self.ev.ctx)))
        finally:
            self.ev.ctx.pop()
        if ended == 'break':
            # the loop is left from this very iteration: the state at the `break` is the state after the loop (and `else` is skipped)
            return
        for k, v in list(self.locals.items()):
            if k in before and before[k] != v and not isinstance(v, Obj):
                self.locals[k] = Opaque(f'{tag}:{k}')
        if self.self_obj:
            for k, v in list(self.self_obj.attrs.items()):
                if k in before_attrs and before_attrs[k] != v:
                    self.self_obj.attrs[k] = Opaque(f'{tag}:self.{k}')
        if getattr(st, 'orelse', None):
            self.block(st.orelse)

    def assign(self, t: ast.AST, v: Any) -> None:
        if isinstance(t, ast.Name):
            self.locals[t.id] = v
        elif isinstance(t, ast.Attribute):
            base = self.eval(t.value)
            if isinstance(base, Obj):
                base.attrs[t.attr] = v
                self.ev.events.append(('store', f'{base.name}.{t.attr}', v, t, tuple(self.ev.ctx)))
            # stores on opaque objects are ignored
        elif isinstance(t, (ast.Tuple, ast.List)):
            if isinstance(v, (tuple, list)) and len(v) == len(t.elts):
                for tt, vv in zip(t.elts, v):
                    self.assign(tt, vv)
            else:
                for i, tt in enumerate(t.elts):
                    self.assign(tt, Opaque(f'{_tag(v)}[{i}]'))
        elif isinstance(t, ast.Subscript):
            base = self.eval(t.value)
            idx = self.eval(t.slice) if not isinstance(t.slice, ast.Slice) else Opaque(norm_src(t.slice))
            self.ev.events.append(('setitem', base, idx, v, t, tuple(self.ev.ctx)))
        else:
            raise AnalysisError(f'assign target {type(t).__name__}')

    # ------------------------------------------------------------------ truthiness
    def truth(self, node: ast.AST) -> bool:
        if isinstance(node, ast.BoolOp):
            if isinstance(node.op, ast.And):
                return all(self.truth(v) for v in node.values)
            return any(self.truth(v) for v in node.values)
        if isinstance(node, ast.UnaryOp) and isinstance(node.op, ast.Not):
            return not self.truth(node.operand)
        if self.ev.atom_map is not None:
            a = self.ev.atom_map(node, self)
            if a is not None:
                neg = a.startswith('!')
                r = self.ev.decide(a.lstrip('!'))
                return (not r) if neg else r
        return self.truth_value(self.eval(node), node)

    def truth_value(self, v: Any, node: ast.AST | None = None) -> bool:
        if isinstance(v, BV):
            if v.val & v.known:
                return True
            unknown = ALL & ~v.known
            if not unknown:
                return False
            low = unknown & -unknown
            return self._decide_bit(v.origin, low) or self.truth_value(self._refine(v), node)
        if isinstance(v, Opaque):
            tag = v.tag
            if tag.startswith('not(') and tag.endswith(')'):
                return not self.ev.decide(tag[4:-1])
            if tag not in self.ev.decisions and self.ev.decisions.get(f'{tag} is not None') is False:
                return False  # it is None
            return self.ev.decide(tag)
        if isinstance(v, Tok):
            return bool(v.parts)
        if isinstance(v, MList):
            if len(v) or v.grown:
                return True
            return self.ev.decide(f'nonempty({v.ident})') if v.unknown else False
        if isinstance(v, MSet):
            if v.items:
                return True
            return self.ev.decide(f'nonempty({v.ident})') if v.unknown else False
        if isinstance(v, (Obj, BoundMethod, FuncRef, ClassRef, ModRef, ExtRef, RegexConst)):
            return True
        return bool(v)

    def _decide_bit(self, origin: str, bit: int) -> bool:
        return self.ev.decide(f'bit:{origin}:{bit:x}')

    def _refine(self, v: BV) -> BV:
        """Re-read decided bits of the origin into v (after a decision was consulted)."""
        val, known = v.val, v.known
        for atom, d in self.ev.decisions.items():
            if atom.startswith(f'bit:{v.origin}:'):
                bit = int(atom.rsplit(':', 1)[1], 16)
                if not known & bit:
                    known |= bit
                    if d:
                        val |= bit
        return BV(v.origin, val, known)

    # ------------------------------------------------------------------ expressions
    def eval(self, n: ast.AST) -> Any:
        m = getattr(self, 'x_' + type(n).__name__, None)
        if m is None:
            return Opaque(norm_src(n))
        return m(n)

    def x_Constant(self, n: ast.Constant) -> Any:
        return n.value

    def x_NamedExpr(self, n: ast.NamedExpr) -> Any:
        v = self.eval(n.value)
        self.assign(n.target, v)
        return v

    def x_Name(self, n: ast.Name) -> Any:
        if n.id in self.locals:
            return self.locals[n.id]
        outer = getattr(self, 'outer', None)
        while outer is not None:
            if n.id in outer.locals:
                return outer.locals[n.id]
            outer = getattr(outer, 'outer', None)
        if n.id in self.mod.env:
            return self.mod.env[n.id]
        if n.id in ('True', 'False', 'None'):
            return {'True': True, 'False': False, 'None': None}[n.id]
        return Opaque(n.id)

    def x_Attribute(self, n: ast.Attribute) -> Any:
        base = self.eval(n.value)
        if isinstance(base, Obj):
            if n.attr in base.attrs:
                return base.attrs[n.attr]
            if base.cls:
                fi = self.ev.repo.find_method(base.cls[0], base.cls[1], n.attr)
                if fi is not None:
                    return BoundMethod(base, fi)
            if base.default_attr is not None:
                return base.default_attr(n.attr)
            return Opaque(f'{base.name}.{n.attr}')
        if isinstance(base, ModRef):
            if base.internal:
                tgt = self.ev.repo.mod(base.name)
                if n.attr in tgt.classes:
                    return ClassRef(base.name, n.attr)
                if n.attr in tgt.functions:
                    return FuncRef(base.name, n.attr)
                if n.attr in tgt.env:
                    return tgt.env[n.attr]
                return Opaque(f'{base.name}.{n.attr}')
            return ExtRef(base.name, n.attr)
        if isinstance(base, ExtRef):
            return ExtRef(base.module + '.' + base.name, n.attr)
        if isinstance(base, RegexConst) and n.attr == 'pattern':
            return base.pattern
        if isinstance(base, (MList, MSet)):
            return BoundBuiltin(base, n.attr)
        return Opaque(f'{_tag(base)}.{n.attr}')

    def x_Tuple(self, n: ast.Tuple) -> Any:
        return tuple(self.eval(e) for e in n.elts)

    def x_List(self, n: ast.List) -> Any:
        v = MList([self.eval(e) for e in n.elts], self.ev.new_ident('list'))
        self.ev.events.append(('new', v.ident, tuple(v), n, tuple(self.ev.ctx)))
        return v

    def x_Set(self, n: ast.Set) -> Any:
        vals = [self.eval(e) for e in n.elts]
        try:
            return frozenset(vals)
        except TypeError:
            return Opaque(norm_src(n))

    def x_Dict(self, n: ast.Dict) -> Any:
        try:
            return {self.eval(k): self.eval(v) for k, v in zip(n.keys, n.values) if k is not None}
        except TypeError:
            return Opaque(norm_src(n))

    def x_JoinedStr(self, n: ast.JoinedStr) -> Any:
        parts: list = []
        for v in n.values:
            if isinstance(v, ast.Constant):
                parts.append(v.value)
            elif isinstance(v, ast.FormattedValue):
                val = self.eval(v.value)
                if isinstance(val, (str, int)) and not isinstance(val, bool) and v.format_spec is None:
                    parts.append(str(val))
                elif isinstance(val, Tok):
                    parts.extend(val.parts)
                else:
                    parts.append('{' + _tag(val) + '}')
        if all(isinstance(p, str) and not p.startswith('{') for p in parts):
            return ''.join(parts)
        return Tok(tuple(p for p in parts if p != ''))

    def x_IfExp(self, n: ast.IfExp) -> Any:
        return self.eval(n.body) if self.truth(n.test) else self.eval(n.orelse)

    def x_BoolOp(self, n: ast.BoolOp) -> Any:
        # value semantics: return the deciding operand
        last = None
        for v in n.values:
            last = self.eval(v) if not isinstance(v, (ast.BoolOp, ast.UnaryOp, ast.Compare)) else None
            t = self.truth(v) if last is None else self.truth_value(last, v)
            if last is None:
                last = t
            if isinstance(n.op, ast.And) and not t:
                return last if not isinstance(last, (BV, Opaque)) else False
            if isinstance(n.op, ast.Or) and t:
                return last if not isinstance(last, (BV, Opaque)) else True
        if isinstance(last, (BV, Opaque)):
            return isinstance(n.op, ast.And)
        return last

    def x_UnaryOp(self, n: ast.UnaryOp) -> Any:
        if isinstance(n.op, ast.Not):
            return not self.truth(n.operand)
        v = self.eval(n.operand)
        if isinstance(n.op, ast.Invert):
            if isinstance(v, int):
                return ~v & ALL
            if isinstance(v, BV):
                unknown = ALL & ~v.known
                if unknown:
                    low = unknown & -unknown
                    self._decide_bit(v.origin, low)
                    return self.x_UnaryOp_refined(n, self._refine(v))
                return (~v.val) & ALL
        if isinstance(n.op, ast.USub) and isinstance(v, (int, float)):
            return -v
        return Opaque(norm_src(n))

    def x_UnaryOp_refined(self, n: ast.UnaryOp, v: BV) -> Any:
        unknown = ALL & ~v.known
        while unknown:
            low = unknown & -unknown
            self._decide_bit(v.origin, low)
            v = self._refine(v)
            unknown = ALL & ~v.known
        return (~v.val) & ALL

    def x_BinOp(self, n: ast.BinOp) -> Any:
        return self.binop(n.op, self.eval(n.left), self.eval(n.right), n)

    def binop(self, op: ast.operator, a: Any, b: Any, node: ast.AST) -> Any:
        if isinstance(a, MSet) or isinstance(b, MSet):
            def conc(x: Any) -> Any:
                if isinstance(x, MSet):
                    if x.unknown:
                        return None
                    try:
                        return frozenset(x.items)
                    except TypeError:
                        return None
                return x if isinstance(x, frozenset) else None
            ca, cb = conc(a), conc(b)
            if ca is not None and cb is not None and isinstance(op, (ast.BitOr, ast.BitAnd, ast.Sub, ast.BitXor)):
                return {ast.BitOr: ca | cb, ast.BitAnd: ca & cb, ast.Sub: ca - cb, ast.BitXor: ca ^ cb}[type(op)]
            return Opaque(f'({_tag(a)}{_opsym(op)}{_tag(b)})')
        if isinstance(a, list) and isinstance(b, list) and isinstance(op, ast.Add):
            r = MList(list(a) + list(b), self.ev.new_ident('list'))
            r.unknown = getattr(a, 'unknown', False) or getattr(b, 'unknown', False)
            return r
        bitop = isinstance(op, (ast.BitOr, ast.BitAnd, ast.BitXor))
        if bitop and (isinstance(a, BV) or isinstance(b, BV)):
            if isinstance(a, bool) or isinstance(b, bool):
                a = int(a) if isinstance(a, bool) else a
                b = int(b) if isinstance(b, bool) else b
            if isinstance(a, int):
                a = BV('', a & ALL, ALL)
            if isinstance(b, int):
                b = BV('', b & ALL, ALL)
            if not isinstance(a, BV) or not isinstance(b, BV):
                return Opaque(f'({_tag(a)}{_opsym(op)}{_tag(b)})')
            if a.origin and b.origin and a.origin != b.origin:
                # two flag words: when one of them has only a few undecided bits (`flags & SCANDOTDIR`), case-split on those
                ua, ub = bin(ALL & ~a.known).count('1'), bin(ALL & ~b.known).count('1')
                if min(ua, ub) > 4:
                    raise AnalysisError(f'{self.fn.fq}: bit operation mixes two symbolic flag words')
                small_is_a = ua <= ub
                v = a if small_is_a else b
                unknown = ALL & ~v.known
                while unknown:
                    low = unknown & -unknown
                    self._decide_bit(v.origin, low)
                    v = self._refine(v)
                    unknown = ALL & ~v.known
                v = BV('', v.val, ALL)
                a, b = (v, b) if small_is_a else (a, v)
            origin = a.origin or b.origin
            return self._bv_op(op, a, b, origin)
        if isinstance(a, (Opaque, Obj)) or isinstance(b, (Opaque, Obj)):
            if isinstance(op, ast.Add) and (isinstance(a, (Tok, str)) or isinstance(b, (Tok, str)) or
                                            (isinstance(a, Opaque) and isinstance(b, Opaque))):
                return Tok(_parts(a) + _parts(b))
            return Opaque(f'({_tag(a)}{_opsym(op)}{_tag(b)})')
        if isinstance(a, Tok) or isinstance(b, Tok):
            if isinstance(op, ast.Add):
                return Tok(_parts(a) + _parts(b))
            return Opaque(f'({_tag(a)}{_opsym(op)}{_tag(b)})')
        try:
            if isinstance(op, ast.BitOr):
                return a | b
            if isinstance(op, ast.BitAnd):
                return a & b
            if isinstance(op, ast.BitXor):
                return a ^ b
            if isinstance(op, ast.Add):
                return a + b
            if isinstance(op, ast.Sub):
                return a - b
            if isinstance(op, ast.Mult):
                return a * b
            if isinstance(op, ast.Mod):
                return a % b
            if isinstance(op, ast.FloorDiv):
                return a // b
        except Exception:
            pass
        return Opaque(f'({_tag(a)}{_opsym(op)}{_tag(b)})')

    def _bv_op(self, op: ast.operator, a: BV, b: BV, origin: str) -> Any:
        ua, ub = ALL & ~a.known, ALL & ~b.known
        if isinstance(op, ast.BitOr):
            ones = (a.val & a.known) | (b.val & b.known)
            known = ones | (a.known & b.known)
            val = ones
            res = BV(origin, val & ALL, known & ALL)
        elif isinstance(op, ast.BitAnd):
            zeros = (a.known & ~a.val) | (b.known & ~b.val)
            both = a.known & b.known
            known = zeros | both
            val = a.val & b.val & both
            res = BV(origin, val & ALL, known & ALL)
        else:  # xor
            both_unknown = ua & ub  # x ^ x == 0
            flip_unknown = (ua & b.known & b.val) | (ub & a.known & a.val)
            if flip_unknown:
                low = flip_unknown & -flip_unknown
                self._decide_bit(origin, low)
                return self._bv_op(op, self._refine(a) if a.origin else a, self._refine(b) if b.origin else b, origin)
            both = a.known & b.known
            known = both | both_unknown
            val = (a.val ^ b.val) & both
            res = BV(origin, val & ALL, known & ALL)
        if res.known == ALL:
            return res.val
        return res

    def x_Compare(self, n: ast.Compare) -> Any:
        if self.ev.atom_map is not None:
            a = self.ev.atom_map(n, self)
            if a is not None:
                neg = a.startswith('!')
                r = self.ev.decide(a.lstrip('!'))
                return (not r) if neg else r
        left = self.eval(n.left)
        result = True
        for op, c in zip(n.ops, n.comparators):
            right = self.eval(c)
            r = self.compare(op, left, right, n)
            if not r:
                return False
            left = right
        return result

    def compare(self, op: ast.cmpop, a: Any, b: Any, node: ast.AST) -> bool:
        if isinstance(op, (ast.In, ast.NotIn)) and isinstance(b, (MSet, MList)) and (isinstance(b, MSet) or b.unknown or
                                                                                   isinstance(a, (Opaque, BV, Tok, Obj))):
            items = b.items if isinstance(b, MSet) else list(b)
            if any(x == a for x in items):
                r = True
            elif not items and not b.unknown:
                r = False
            else:
                r = self.ev.decide(f'{_tag(a)} in {b.ident}')
            return r if isinstance(op, ast.In) else not r
        if isinstance(a, ExtRef):
            a = Opaque(f'{a.module}.{a.name}')  # a value of the host environment: unknown here
        if isinstance(b, ExtRef):
            b = Opaque(f'{b.module}.{b.name}')
        sym = (Opaque, BV, Obj)
        if isinstance(op, (ast.Is, ast.IsNot)) and (b is None or a is None):
            other = a if b is None else b
            if isinstance(other, Opaque):
                if f'{other.tag} is not None' not in self.ev.decisions and self.ev.decisions.get(other.tag) is True:
                    r = False  # truthy, hence not None
                else:
                    r = not self.ev.decide(f'{other.tag} is not None')
                return r if isinstance(op, ast.Is) else not r
            isnone = other is None
            return isnone if isinstance(op, ast.Is) else not isnone
        if isinstance(a, Opaque) and isinstance(b, Opaque) and a == b and isinstance(op, (ast.Eq, ast.NotEq, ast.Is, ast.IsNot)) and \
                '(' not in a.tag.replace('elem(', '').replace('loop@(', ''):
            return isinstance(op, (ast.Eq, ast.Is))  # the same symbolic value on both sides (no call in it that could differ)
        if isinstance(a, sym) or isinstance(b, sym):
            if isinstance(a, BV) and isinstance(b, int) and isinstance(op, (ast.Eq, ast.NotEq)) and b == 0:
                t = self.truth_value(a)
                return (not t) if isinstance(op, ast.Eq) else t
            if isinstance(b, BV) and isinstance(a, int) and not isinstance(a, bool):
                a, b = b, a
            if isinstance(a, BV) and isinstance(b, int) and not isinstance(b, bool) and isinstance(op, (ast.Eq, ast.NotEq)):
                # decide every bit the comparison depends on
                while ALL & ~a.known:
                    unknown = ALL & ~a.known
                    if (a.val ^ b) & a.known:
                        break  # already different on a known bit
                    low = unknown & -unknown
                    self._decide_bit(a.origin, low)
                    a = self._refine(a)
                eq = (a.known == ALL and a.val == (b & ALL))
                return eq if isinstance(op, ast.Eq) else not eq
            neg = isinstance(op, (ast.NotEq, ast.NotIn, ast.IsNot))
            base = {ast.NotEq: '==', ast.Eq: '==', ast.In: 'in', ast.NotIn: 'in', ast.Is: 'is', ast.IsNot: 'is',
                    ast.Lt: '<', ast.LtE: '<=', ast.Gt: '>', ast.GtE: '>='}[type(op)]
            if base == 'in' and isinstance(a, Opaque) and isinstance(b, (tuple, list, frozenset)) and 0 < len(b) <= 8 and \
                    not getattr(b, 'unknown', False) and all(isinstance(x, (str, bytes, int, Opaque)) for x in b):
                # membership in a small constant collection = disjunction of equalities (same atoms as `x == a or x == b`)
                r = any(self.compare(ast.Eq(), a, x, node) for x in (sorted(b, key=repr) if isinstance(b, frozenset) else b))
                return (not r) if neg else r
            if base == '==' and isinstance(b, Opaque) and isinstance(a, (str, bytes, int)):
                a, b = b, a
            if base == '==' and isinstance(a, Opaque) and isinstance(b, (str, bytes, int)):
                # a value equals at most one constant: once `x == k` holds, `x == k2` is false without a new decision
                pre = f'{_tag(a)} == '
                me = f'{pre}{_tag(b)}'
                if me not in self.ev.decisions and any(k.startswith(pre) and v for k, v in self.ev.decisions.items()):
                    r = False
                else:
                    r = self.ev.decide(me)
                return (not r) if neg else r
            r = self.ev.decide(f'{_tag(a)} {base} {_tag(b)}')
            return (not r) if neg else r
        if isinstance(a, Tok) or isinstance(b, Tok):
            pa, pb = _parts(a), _parts(b)
            if isinstance(op, ast.Eq):
                return pa == pb
            if isinstance(op, ast.NotEq):
                return pa != pb
        try:
            return {ast.Eq: lambda: a == b, ast.NotEq: lambda: a != b, ast.Lt: lambda: a < b, ast.LtE: lambda: a <= b,
                    ast.Gt: lambda: a > b, ast.GtE: lambda: a >= b, ast.In: lambda: a in b,
                    ast.NotIn: lambda: a not in b, ast.Is: lambda: a is b, ast.IsNot: lambda: a is not b}[type(op)]()
        except TypeError:
            neg = isinstance(op, (ast.NotEq, ast.NotIn, ast.IsNot))
            r = self.ev.decide(f'{_tag(a)} ? {_tag(b)}')
            return (not r) if neg else r

    def x_Subscript(self, n: ast.Subscript) -> Any:
        base = self.eval(n.value)
        if isinstance(n.slice, ast.Slice):
            lo = self.eval(n.slice.lower) if n.slice.lower else None
            hi = self.eval(n.slice.upper) if n.slice.upper else None
            if isinstance(base, MList) and base.unknown:
                return Opaque(f'{base.ident}[{"" if lo is None else _tag(lo)}:{"" if hi is None else _tag(hi)}]')
            if isinstance(base, (str, bytes, tuple, list)) and all(x is None or isinstance(x, int) for x in (lo, hi)):
                r = base[lo:hi]
                return MList(r, self.ev.new_ident('list')) if isinstance(base, MList) else r
            return Opaque(f'{_tag(base)}[{"" if lo is None else _tag(lo)}:{"" if hi is None else _tag(hi)}]')
        idx = self._few_bits(self.eval(n.slice)) if isinstance(base, (dict, tuple, list)) else self.eval(n.slice)
        if isinstance(base, dict) and isinstance(idx, Opaque) and 0 < len(base) <= 8 and \
                all(isinstance(k, (str, bytes, int)) and not isinstance(k, bool) for k in base):
            # a constant table indexed by an unknown key: case split over the keys (the same atoms as an if / elif chain)
            for k in base:
                if self.compare(ast.Eq(), idx, k, n):
                    return base[k]
            raise Raised('KeyError', n)
        if isinstance(base, MList) and base.unknown:
            if isinstance(idx, int) and not isinstance(idx, bool) and 0 <= idx < len(base):
                return base[idx]
            return Opaque(f'{base.ident}[{_tag(idx)}]')
        if isinstance(base, (tuple, list, str, bytes, dict)) and not isinstance(idx, (Opaque, BV, Tok, Obj)):
            try:
                return base[idx]
            except Exception:
                pass
        return Opaque(f'{_tag(base)}[{_tag(idx)}]')

    def _few_bits(self, v: Any) -> Any:
        """A flag word of which only a few bits are undecided (`flags & (CASE | IGNORECASE)`) used as a key: case-split on those bits."""
        if isinstance(v, BV) and 0 < bin(ALL & ~v.known).count('1') <= 4:
            unknown = ALL & ~v.known
            while unknown:
                low = unknown & -unknown
                self._decide_bit(v.origin, low)
                v = self._refine(v)
                unknown = ALL & ~v.known
            return v.val
        if isinstance(v, BV) and not (ALL & ~v.known):
            return v.val
        return v

    def comprehension(self, n: Any) -> Any:
        """Abstract a comprehension: element expression evaluated once with an opaque element of each iterable."""
        saved = dict(self.locals)
        tags = []
        pushed = 0
        try:
            for g in n.generators:
                it = self.eval(g.iter)
                self.assign(g.target, Opaque(f'elem({_tag(it)})'))
                self.ev.ctx.append(f'for:{_tag(it)}')
                pushed += 1
                tags.append(_tag(it))
                for cond in g.ifs:
                    if not self.truth(cond):
                        return Opaque(f'comp(<filtered> for {" ".join(tags)})')
            if isinstance(n, ast.DictComp):
                elt = (self.eval(n.key), self.eval(n.value))
            else:
                elt = self.quiet(n.elt)
            return Opaque(f'comp({_tag(elt)} for {" ".join(tags)})')
        finally:
            for _ in range(pushed):
                self.ev.ctx.pop()
            self.locals = saved

    def x_GeneratorExp(self, n: ast.GeneratorExp) -> Any:
        return self.comprehension(n)

    def x_ListComp(self, n: ast.ListComp) -> Any:
        return self.comprehension(n)

    def x_SetComp(self, n: ast.SetComp) -> Any:
        return self.comprehension(n)

    def x_DictComp(self, n: ast.DictComp) -> Any:
        return self.comprehension(n)

    def x_Lambda(self, n: ast.Lambda) -> Any:
        return Opaque(f'lambda@{n.lineno}')

    def x_Yield(self, n: ast.Yield) -> Any:
        v = self.eval(n.value) if n.value is not None else None
        self.ev.yields.append(v)
        self.ev.events.append(('yield', v, n, tuple(self.ev.ctx)))
        return None

    def x_YieldFrom(self, n: ast.YieldFrom) -> Any:
        if isinstance(n.value, ast.Call):
            self._delegating = True  # a generator helper may be followed here: its yields are this function's yields
            try:
                v = self.eval(n.value)
            finally:
                self._delegating = False
            if isinstance(v, _Delegated):
                return None
        else:
            v = self.eval(n.value)
        self.ev.yields.append(('from', v))
        self.ev.events.append(('yield', ('from', v), n, tuple(self.ev.ctx)))
        return None

    def x_Call(self, n: ast.Call) -> Any:
        f = n.func
        # builtins on symbolic values
        if isinstance(f, ast.Name) and f.id not in self.locals and f.id not in self.mod.env:
            if f.id == 'bool' and len(n.args) == 1:
                if not isinstance(n.args[0], (ast.BoolOp, ast.UnaryOp, ast.Compare)):
                    v = self.eval(n.args[0])
                    if isinstance(v, BV) and not (v.val & v.known):
                        unknown = ALL & ~v.known
                        if unknown and unknown & (unknown - 1) == 0:
                            return Opaque(f'bit:{v.origin}:{unknown:x}')  # lazy: forks only when branched on
                    return self.truth_value(v, n.args[0])
                return self.truth(n.args[0])
            if f.id == 'isinstance' and len(n.args) == 2:
                v = self.eval(n.args[0])
                ty = norm_src(n.args[1])
                if isinstance(v, (Opaque, Obj, Tok)):
                    if isinstance(v, Obj) and v.cls is not None:
                        names = [c.name for c in self.ev.repo.mro(*v.cls)]
                        tnames = [t.strip() for t in ty.strip('()').split(',')]
                        if any(t in names for t in tnames):
                            return True
                    return self.ev.decide(f'isinstance({_tag(v)}, {ty})')
                pyt = {'bytes': bytes, 'str': str, 'int': int, '(str, bytes)': (str, bytes), '(bytes, str)': (str, bytes)}
                if ty in pyt:
                    return isinstance(v, pyt[ty])
                return self.ev.decide(f'isinstance({_tag(v)}, {ty})')
            if f.id == 'len':
                v = self.eval(n.args[0])
                if isinstance(v, (MList, MSet)):
                    if v.unknown:
                        return Opaque(f'len({v.ident})')
                    return len(v) if isinstance(v, MList) else Opaque(f'len({v.ident})')
                if isinstance(v, (str, bytes, tuple, list, frozenset, dict)):
                    return len(v)
                return Opaque(f'len({_tag(v)})')
            if f.id in ('set', 'frozenset', 'list', 'tuple') and len(n.args) <= 1:
                if not n.args:
                    if f.id == 'set':
                        return MSet((), self.ev.new_ident('set'))
                    if f.id == 'list':
                        return MList((), self.ev.new_ident('list'))
                    return {'frozenset': frozenset(), 'tuple': ()}[f.id]
                v = self.eval(n.args[0])
                if isinstance(v, (MList, MSet)) and v.unknown:
                    return Opaque(f'{f.id}({v.ident})')
                if isinstance(v, MSet):
                    return Opaque(f'{f.id}({v.ident})')
                try:
                    r = {'set': frozenset, 'frozenset': frozenset, 'list': list, 'tuple': tuple}[f.id](v)
                    return MList(r, self.ev.new_ident('list')) if f.id == 'list' else r
                except TypeError:
                    return Opaque(f'{f.id}({_tag(v)})')
        if isinstance(f, ast.Name) and f.id == 'next' and f.id not in self.locals and f.id not in self.mod.env and n.args:
            # every read of an iterator is a fresh value
            a0 = [self.eval(a) for a in n.args]
            base = f'next({", ".join(_tag(a) for a in a0)})'
            k = self.ev.fresh.get(base, 0) + 1
            self.ev.fresh[base] = k
            self.ev.events.append(('call', 'next', a0, {}, n, tuple(self.ev.ctx)))
            return Opaque(base if k == 1 else f'{base}#{k}')
        if isinstance(f, ast.Name) and f.id in ('any', 'all') and f.id not in self.locals and len(n.args) == 1 and \
                isinstance(n.args[0], (ast.GeneratorExp, ast.ListComp)):
            inner = self.comprehension(n.args[0])
            return Opaque(f'{f.id}({_tag(inner)})')
        args = [self.eval(a) for a in n.args if not isinstance(a, ast.Starred)]
        kwargs = {k.arg: self.eval(k.value) for k in n.keywords if k.arg}
        for k in n.keywords:
            if k.arg is None:
                d = self.eval(k.value)
                if isinstance(d, dict) and all(isinstance(x, str) for x in d):
                    kwargs.update(d)
        if isinstance(f, ast.Attribute) and f.attr == 'format':
            base = self.eval(f.value)
            if isinstance(base, str) and all(isinstance(a, (str, int)) for a in list(args) + list(kwargs.values())):
                try:
                    return base.format(*args, **kwargs)  # constant folding of a template
                except (IndexError, KeyError):
                    pass
        if isinstance(f, ast.Attribute) and f.attr == 'join' and len(args) == 1 and not kwargs and isinstance(f.value, ast.Constant) and \
                f.value.value == '' and isinstance(args[0], (MList, tuple)) and not getattr(args[0], 'unknown', False):
            # ''.join of a known sequence: the concatenation of its parts (one part: that part)
            items = list(args[0])
            self.ev.events.append(('call', "''.join", args, kwargs, n, tuple(self.ev.ctx)))
            if all(isinstance(x, str) for x in items):
                return ''.join(items)
            if len(items) == 1:
                return items[0]
            if all(isinstance(x, (str, Tok, Opaque)) for x in items):
                parts: tuple = ()
                for x in items:
                    parts += _parts(x)
                return Tok(parts)
        if isinstance(f, ast.Attribute) and f.attr == 'join' and len(args) == 1 and not kwargs and isinstance(f.value, ast.Constant) and \
                f.value.value == '' and isinstance(args[0], Grown):
            self.ev.events.append(('call', "''.join", args, kwargs, n, tuple(self.ev.ctx)))
            parts = _parts(Opaque(f"''.join({args[0].base})"))
            for x in args[0].items:
                parts += _parts(x)
            return Tok(parts)
        target = self.eval(f)
        if isinstance(target, BoundBuiltin):
            name = f'{target.obj.ident}.{target.attr}'
            if self.ev.watch_calls:
                self.ev.calls.append((n, name, args, kwargs))
            self.ev.events.append(('call', name, args, kwargs, n, tuple(self.ev.ctx)))
            return self._builtin_effect(target.obj, target.attr, args)
        name = self._callee_name(f, target)
        # a container handed to code that is not followed may be changed by it
        if not (isinstance(target, (BoundMethod, FuncRef)) and self.ev.inline and name not in self.ev.no_inline and
                (self.ev.inline_only is None or name in self.ev.inline_only)) and name not in self.ev.call_models and \
                name not in PURE_CALLEES and not isinstance(target, ExtRef) and \
                not (isinstance(f, ast.Name) and f.id not in self.locals and f.id not in self.mod.env):
            for a_ in list(args) + list(kwargs.values()):
                if isinstance(a_, MList):
                    a_.unknown = True
                elif isinstance(a_, MSet):
                    a_.unknown = True
        if self.ev.watch_calls:
            self.ev.calls.append((n, name, args, kwargs))
        self.ev.events.append(('call', name, args, kwargs, n, tuple(self.ev.ctx)))
        model = self.ev.call_models.get(name)
        if model is not None:
            return model(self, n, args, kwargs)
        may_inline = self.ev.inline and name not in self.ev.no_inline and \
            (self.ev.inline_only is None or name in self.ev.inline_only)
        if not may_inline and isinstance(target, (BoundMethod, FuncRef)) and name not in PINNED_FUNCTIONS and name not in self.ev.call_models:
            may_inline = True  # a helper that did not exist when the rules were written: follow it (vocabulary.py)
        if isinstance(target, Closure):
            params = target.fn.params()
            amap = dict(zip(params, args))
            amap.update(kwargs)
            fr = Frame(self.ev, target.fn, amap, target.frame.self_obj)
            fr.outer = target.frame
            return fr.run()
        if isinstance(target, BoundMethod) and may_inline:
            if _is_generator(target.fn):
                if getattr(self, '_delegating', False):
                    self._delegating = False
                    self._inline(target.fn, args, kwargs, target.obj)
                    return _Delegated()
            else:
                return self._inline(target.fn, args, kwargs, target.obj)
        if isinstance(target, FuncRef) and may_inline:
            fi = self.ev.repo.mod(target.module).functions.get(target.qualname)
            if fi is not None:
                if _is_generator(fi):
                    if getattr(self, '_delegating', False):
                        self._delegating = False
                        self._inline(fi, args, kwargs, None)
                        return _Delegated()
                else:
                    return self._inline(fi, args, kwargs, None)
        if isinstance(target, ExtRef) and (target.module, target.name) == ('re', 'escape') and args and \
                isinstance(args[0], str):
            import re as _re
            return _re.escape(args[0])
        if isinstance(f, ast.Attribute) and f.attr in ('encode', 'decode', 'lower', 'upper', 'strip', 'startswith', 'endswith', 'replace') and \
                not kwargs and all(isinstance(a, (str, bytes, int)) and not isinstance(a, bool) for a in args) and \
                isinstance(f.value, (ast.Constant, ast.Name)):
            base = self.eval(f.value)
            if isinstance(base, (str, bytes)):
                try:
                    return getattr(base, f.attr)(*args)  # a pure method of a constant string
                except (TypeError, ValueError, LookupError):
                    pass
        if isinstance(f, ast.Attribute) and f.attr == 'get' and isinstance(f.value, ast.Name) and 1 <= len(args) <= 2 and not kwargs:
            base = self.eval(f.value)
            if isinstance(base, dict) and 0 < len(base) <= 8:
                k = self._few_bits(args[0])
                dflt = args[1] if len(args) == 2 else None
                if isinstance(k, (str, bytes, int)) and not isinstance(k, bool):
                    return base.get(k, dflt)  # a constant table and a decided key
                if isinstance(k, Opaque) and all(isinstance(x, (str, bytes, int)) and not isinstance(x, bool) for x in base):
                    for x in base:
                        if self.compare(ast.Eq(), k, x, n):
                            return base[x]
                    return dflt
        if isinstance(f, ast.Attribute) and f.attr == 'format':
            base = self.eval(f.value)
            if isinstance(base, str):
                return Tok((f'format({base!r}; ' + ', '.join(_tag(a) for a in args) +
                            ''.join(f', {k}={_tag(v)}' for k, v in kwargs.items()) + ')',))
        res = Opaque(f'{name}(' + ', '.join([_tag(a) for a in args] + [f'{k}={_tag(v)}' for k, v in kwargs.items()]) + ')')
        if isinstance(f, ast.Attribute) and f.attr in LIST_MUTATORS and isinstance(f.value, ast.Name) and \
                isinstance(self.locals.get(f.value.id), Opaque):
            # the receiver is changed in place: later reads see a new version of it
            old = self.locals[f.value.id]
            if f.attr == 'append' and len(args) == 1 and not kwargs and isinstance(args[0], (str, Tok, Opaque)):
                prev = (old.base, old.items) if isinstance(old, Grown) else (old.tag, ())
                self.locals[f.value.id] = Grown(old.tag + "'", prev[0], prev[1] + (args[0],))
            else:
                self.locals[f.value.id] = Opaque(old.tag + "'")
        return res

    def _builtin_effect(self, obj: Any, attr: str, args: list) -> Any:
        if isinstance(obj, MSet):
            if attr == 'add' and len(args) == 1:
                obj.items.append(args[0])
                return None
            if attr in ('update',):
                obj.unknown = True
                return None
            if attr in ('discard', 'remove', 'clear', 'pop'):
                obj.items = []
                obj.unknown = True
                return Opaque(f'{obj.ident}.{attr}()') if attr == 'pop' else None
            return Opaque(f'{obj.ident}.{attr}(' + ', '.join(_tag(a) for a in args) + ')')
        if attr == 'append' and len(args) == 1:
            if obj.unknown:
                obj.grown = True  # order behind unknown elements is not tracked: stays "known prefix + unknown rest"
            else:
                list.append(obj, args[0])
            return None
        if attr == 'extend' and len(args) == 1:
            if isinstance(args[0], (list, tuple)) and not getattr(args[0], 'unknown', False) and not obj.unknown:
                list.extend(obj, args[0])
            else:
                obj.unknown = True
            return None
        if attr == 'copy' and not args:
            c = MList(list(obj), self.ev.new_ident('list'))
            c.unknown = obj.unknown
            return c
        if attr in ('index', 'count'):
            return Opaque(f'{obj.ident}.{attr}(' + ', '.join(_tag(a) for a in args) + ')')
        if attr == 'pop' and not args and not obj.unknown and len(obj):
            return list.pop(obj)
        if attr in ('pop', 'insert', 'remove', 'clear', 'sort', 'reverse'):
            obj.forget()
            return Opaque(f'{obj.ident}.{attr}()') if attr == 'pop' else None
        return Opaque(f'{obj.ident}.{attr}(' + ', '.join(_tag(a) for a in args) + ')')

    def _callee_name(self, f: ast.AST, target: Any) -> str:
        if isinstance(target, BoundMethod):
            return target.fn.fq
        if isinstance(target, FuncRef):
            return f'{target.module}:{target.qualname}'
        if isinstance(target, ClassRef):
            return f'{target.module}:{target.name}'
        if isinstance(target, ExtRef):
            return f'{target.module}.{target.name}'
        if isinstance(target, Opaque):
            return target.tag  # value-based: independent of what the local variable holding the callee / receiver is called
        return norm_src(f)

    def _inline(self, fi: FuncInfo, args: list, kwargs: dict, obj: Obj | None) -> Any:
        params = fi.params()
        if fi.cls is not None and fi.parent is None and params and params[0] in ('self', 'cls'):
            params = params[1:]
        amap = dict(zip(params, args))
        amap.update(kwargs)
        fr = Frame(self.ev, fi, amap, obj)
        return fr.run()


LIST_MUTATORS = {'append', 'extend', 'insert', 'pop', 'remove', 'clear', 'add', 'update', 'discard', 'sort', 'reverse'}
PURE_CALLEES = {'len', 'str', 'bool', 'isinstance', 'tuple', 'list', 'set', 'frozenset', 'sorted', 'any', 'all', 'iter', 'enumerate', 'zip',
                'min', 'max', 'sum', 'repr', 'type', 'id', 'os.fspath', "''.join", 'os.path.join', 're.escape'}


class _Delegated:
    """Result of `yield from helper(...)` when the generator helper was followed in place."""


def _is_generator(fi: FuncInfo) -> bool:
    c = fi.__dict__.get('_wc_isgen')
    if c is None:
        body = fi.node.body if isinstance(fi.node.body, list) else []
        c = any(isinstance(x, (ast.Yield, ast.YieldFrom)) for x in _walk_stmts(body))
        fi.__dict__['_wc_isgen'] = c
    return c


def _walk_stmts(body: list) -> Any:
    todo = list(body)
    while todo:
        n = todo.pop()
        if isinstance(n, (ast.FunctionDef, ast.AsyncFunctionDef, ast.ClassDef, ast.Lambda)):
            continue
        yield n
        todo.extend(ast.iter_child_nodes(n))


_CURRENT: list[dict] = [{}]  # decisions of the evaluation in progress (read by _tag)


def focus(p: 'Path') -> None:
    """Make `_tag` name flag words relative to this path's decisions (call before computing tags of a path's values)."""
    _CURRENT[0] = p.decisions


def concrete(v: Any) -> Any:
    """Plain value of a fully known container (MSet -> frozenset, MList -> list); anything else unchanged."""
    if isinstance(v, MSet) and not v.unknown:
        try:
            return frozenset(v.items)
        except TypeError:
            return v
    if isinstance(v, MList) and not v.unknown:
        return [concrete(x) for x in v]
    if isinstance(v, tuple):
        return tuple(concrete(x) for x in v)
    return v


def _as_load(t: ast.AST) -> ast.AST:
    import copy
    t2 = copy.deepcopy(t)
    for x in ast.walk(t2):
        if hasattr(x, 'ctx'):
            x.ctx = ast.Load()
    return t2


def _tag(v: Any) -> str:
    if isinstance(v, Opaque):
        return v.tag
    if isinstance(v, BV):
        # canonical with respect to the decisions taken so far: a bit that merely carries its decided value is "passed through"
        agree = 0
        for atom, d in _CURRENT[0].items():
            if atom.startswith(f'bit:{v.origin}:'):
                bit = int(atom.rsplit(':', 1)[1], 16)
                if v.known & bit and bool(v.val & bit) == d:
                    agree |= bit
        known = v.known & ~agree
        return f'bv({v.origin},val={v.val & known:#x},known={known:#x})'
    if isinstance(v, Obj):
        return v.name
    if isinstance(v, Tok):
        return repr(v)
    if isinstance(v, BoundMethod):
        return v.fn.fq
    if isinstance(v, (MList, MSet)):
        if isinstance(v, MList) and not v.unknown:
            return '[' + ', '.join(_tag(x) for x in v) + ']'
        return v.ident
    if isinstance(v, Closure):
        return f'def {v.fn.name}'
    if isinstance(v, ExtRef):
        return f'{v.module}.{v.name}'
    if isinstance(v, BoundBuiltin):
        return f'{_tag(v.obj)}.{v.attr}'
    if isinstance(v, frozenset):
        return '{' + ', '.join(sorted(map(repr, v))) + '}'
    return repr(v)


def _parts(v: Any) -> tuple:
    if isinstance(v, Tok):
        return v.parts
    if isinstance(v, str):
        return (v,) if v != '' else ()
    return ('{' + _tag(v) + '}',)


def _tok_of(v: Any) -> Tok:
    return Tok(_parts(v))


def _opsym(op: ast.operator) -> str:
    return {ast.BitOr: '|', ast.BitAnd: '&', ast.BitXor: '^', ast.Add: '+', ast.Sub: '-', ast.Mult: '*',
            ast.Mod: '%', ast.FloorDiv: '//', ast.Div: '/'}.get(type(op), '?')
