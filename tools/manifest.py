#!/venv/bin/python
"""Refresh the per-check `technique` / level text and the engine description of MANIFEST.json from the registry (validated with jsonschema)."""
import json
import os
import sys

V = os.path.dirname(os.path.dirname(os.path.abspath(__file__)))
sys.path.insert(0, V)
from wcverif.registry import PROPERTIES  # noqa: E402

TECH = {
    'C01': 'static analysis: regex-fragment language equivalence (derivative automata over the parsed constants); per-site backward slices + decision tables with call events for the extglob dispatch, bracket prologue / scan loop / epilogue and `!(…)` clean-up; POSIX tables by constant folding',
    'C02': 'static analysis: regex-fragment language equivalence; decision tables with ordered effects for WcParse.root tokens, the three _references and the three _sequence scan loops; tail tables of translate / compile_pattern (loops skipped); site slice of the implicit `**` part; bit-vector flag flow',
    'C03': 'static analysis: regex-fragment language equivalence of the dot guards; guard-selection decision tables; START typestate over the CFG; bit-vector flag flow to every exclusion compile site; slice tables of Glob.__init__; walker CFG guards',
    'C04': 'static analysis: sibling agreement of glob walker and REALPATH matcher: decision tables of compile / _match_real / _match_excluded with object states from __init__, slice tables of Glob.__init__, twin-call rule, rooted-argument def-use rule',
    'C05': 'static analysis: decision tables with call / yield events for Glob._glob, _iter, _get_starting_paths, _get_matcher, _match_literal, _GlobSplit.store / is_magic, scan-loop table of _GlobSplit.split',
    'C06': 'static analysis: decision tables of _fs_match (which parts are inspected, cache discipline), slice tables of Glob.__init__ (follow_links), _glob / _glob_dir argument flow, capture-group budget of fragments',
    'C07': 'static analysis: loop and tail decision tables of translate / compile_pattern (seen-set, routing, NEGATEALL default, NODIR), is_negative table, include/exclude tables of _Match with search-loop = any() normalisation, scanner agreement on bracket extents',
    'C08': 'static analysis: sibling agreement of translate and compile_pattern by comparing normalised decision tables and effects; capture/plain template pairs by regex equivalence; marker handling tables',
    'C09': 'static analysis: set comparison of escape class vs magic tables vs parser dispatch characters (from the tables / AST), regex syntax normal forms, _get_magic_symbols decision table',
    'C10': 'static analysis: exception-escape least fixpoint over the call graph (handler subtraction), definite-assignment dataflow, decode sites by value (per-site slices), recovery pairing over the CFG',
    'C11': 'static analysis: budget flow: slice table of Glob.__init__, loop tables of translate / compile_pattern, clamp contradiction rule over every budget subtraction, bracex hand-over sites',
    'C12': 'static analysis: forwarding by call events of decision tables (argument values), rooted file-system arguments, descriptor-presence consistency rule, slice tables of Glob.__init__, _format_path table',
    'C13': 'static analysis: decision tables with yield events of Glob.glob and _format_path (helpers and generator delegation followed), seen-key agreement, dedupe predicate',
    'C14': 'static analysis: decision table of WcMatch._walk with exception handlers explored (pruning, hooks), tables of _valid_file / _valid_folder / _compile / compare_*, flag-word table of _parse_flags',
    'C15': 'static analysis: _walk table (abort discipline, one hook per file, yield provenance), who-may-write rules for _skipped / _abort, prologue-on-every-path over the CFG',
    'C16': 'static analysis: forwarding tables of the pathlib methods with symbolic flag words (helpers followed by vocabulary), platform table of _translate_flags, _translate_path table',
    'C17': 'static analysis: case / platform decision tables over symbolic flag words, flag-mask agreement, fragment equivalence of the separator classes, _references tables',
    'C18': 'static analysis: twin-constant latin-1 agreement by constant folding, per-site slices of every value leaving the decoders, typed-defaults slice table, type test dominance by site tables (mypy only as an advisory cross-reference)',
    'C19': 'static analysis: module-state / mutable-default / cache-key rules over the AST and symbol tables, _compile table, per-call object construction by events',
    'C20': 'static analysis: 60-scenario decision table of the RAWCHARS decoder against group roles recognised by regex language, translation-table folding, decode-only-if-raw table, expand-argument provenance',
}

m = json.load(open(os.path.join(V, 'MANIFEST.json')))
for c in m['checks']:
    p = c['property_id']
    c['technique'] = TECH[p]
    n_rules = len(PROPERTIES[p]['rules'])
    c['level_claimed'] = {'category': 'other', 'text': (
        'Static analysis of /repo/wcmatch/*.py (parsed afresh on every run, never imported or executed): decides the structural clauses of the '
        f'property described in DESIGN.md sections 3 and 6 ({n_rules} rules). Each clause is a necessary condition of the property with a named witness input; '
        'the behaviour itself (all patterns x names x trees x histories) is not decided. Rules are phrased over computed values (decision tables with call '
        'events, program slices, regex languages, flag bit-vectors, CFG dominance), not over source text.')}
    c['level_note'] = ('exit 0: every obligation found in the current source holds (open findings of known_findings.json are printed as KNOWN-FINDING); '
                       'exit 1 + VIOLATION: an obligation not listed there fails, the replay file names rule, construct, site and witness; '
                       'exit 2 + ANALYSIS-ERROR: a rule lost its subject (undecided, never a verdict). Thorough tier adds the both-ways self-test: '
                       'breaking variants and the confirmed seeded mutants of the property must be reported, neutral refactorings are replayed and recorded.')
m['engines'][0]['kind_free_text'] = ('stdlib-only static analyser: program model + constant resolver, canonical forms, CFG/dominators, regex-fragment domain with '
                                     'derivative-based equivalence, abstract evaluator producing decision tables with ordered call/yield/store events over '
                                     'symbolic flag words and modelled containers, backward program slicer, exception-escape fixpoint, call graph')
json.dump(m, open(os.path.join(V, 'MANIFEST.json'), 'w'), indent=1)
print('MANIFEST.json refreshed')
