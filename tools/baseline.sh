#!/bin/sh
# Runs the repository's pinned test suite (guard off) and reports pass/fail counts; expected: 1194 passed, 2 always-failing.
cd /repo && /venv/bin/python -m pytest -ra -q -p no:cacheprovider --timeout=900 --continue-on-collection-errors "$@" 2>&1 | tail -5
