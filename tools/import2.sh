#!/bin/sh
# import mutants of property $1 from $SRC/$1/_out (default /tmp/wt2) as seeded/<P>-<SUFFIX><k> (default suffix n)
p=$1
/venv/bin/python - <<PY
import shutil,os,json
src='${SRC:-/tmp/wt2}/$p/_out'
for k in (1,2,3):
    d=f'{src}/m{k}.diff'
    if not os.path.exists(d) or os.path.getsize(d)==0: continue
    dst=f'/verif/seeded/$p-${SUFFIX:-n}{k}'
    os.makedirs(dst,exist_ok=True)
    shutil.copy(d,dst+'/patch.diff'); shutil.copy(f'{src}/m{k}_demo.py',dst+'/demo.py')
    meta=json.load(open(f'{src}/m{k}_meta.json')) if os.path.exists(f'{src}/m{k}_meta.json') else {}
    meta.setdefault('property','$p'); meta['origin']='${ORIGIN:-independent sub-agent, round 2 (told only the property text and the summaries of round 1)}'
    json.dump(meta,open(dst+'/meta.json','w'),indent=1)
PY
