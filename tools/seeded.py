#!/venv/bin/python
"""Confirm and evaluate seeded changes (sub-agent mutants).

  tools/seeded.py import <agent_out_dir> <PROP>   copy m<k>.diff/_demo.py/_meta.json into /verif/seeded/<PROP>-m<k>/
  tools/seeded.py confirm [ids...]                 in a scratch worktree of /repo: tests unchanged, demo fails with / passes without
  tools/seeded.py detect [ids...]                  run every property's quick check on a scratch copy with the patch applied

Scratch worktrees / copies live under tempfile.mkdtemp() (outside /repo and /verif) and are always removed.
"""
from __future__ import annotations

import json
import os
import shutil
import subprocess
import sys
import tempfile
from concurrent.futures import ProcessPoolExecutor

VERIF = os.path.dirname(os.path.dirname(os.path.abspath(__file__)))
SEEDED = os.path.join(VERIF, 'seeded')
PY = '/venv/bin/python'
BASE_TAIL = ('2 failed', '1194 passed')


def sh(cmd: str, cwd: str | None = None, env: dict | None = None, timeout: int = 600) -> tuple[int, str]:
    p = subprocess.run(cmd, shell=True, cwd=cwd, env=env, capture_output=True, text=True, timeout=timeout)
    return p.returncode, (p.stdout + p.stderr)


def ids(args: list[str]) -> list[str]:
    all_ids = sorted(d for d in os.listdir(SEEDED) if os.path.isdir(os.path.join(SEEDED, d)))
    return [a for a in all_ids if not args or a in args or any(a.startswith(x) for x in args)]


def do_import(src: str, prop: str) -> None:
    for k in (1, 2, 3, 4):
        d = os.path.join(src, f'm{k}.diff')
        if not os.path.exists(d) or os.path.getsize(d) == 0:
            continue
        dst = os.path.join(SEEDED, f'{prop}-m{k}')
        os.makedirs(dst, exist_ok=True)
        shutil.copy(d, os.path.join(dst, 'patch.diff'))
        shutil.copy(os.path.join(src, f'm{k}_demo.py'), os.path.join(dst, 'demo.py'))
        meta = {}
        mp = os.path.join(src, f'm{k}_meta.json')
        if os.path.exists(mp):
            with open(mp, encoding='utf-8') as fh:
                meta = json.load(fh)
        meta.setdefault('property', prop)
        meta['origin'] = 'independent sub-agent given only the property text and a scratch worktree'
        with open(os.path.join(dst, 'meta.json'), 'w', encoding='utf-8') as fh:
            json.dump(meta, fh, indent=1)
        print('imported', dst)


def confirm_one(sid: str) -> dict:
    d = os.path.join(SEEDED, sid)
    tmp = tempfile.mkdtemp(prefix='wcverif-seed-')
    wt = os.path.join(tmp, 'wt')
    res = {'id': sid}
    try:
        rc, out = sh(f'git -C /repo worktree add -q --detach {wt} HEAD')
        if rc:
            res['error'] = out
            return res
        env = dict(os.environ, PYTHONPATH=wt)
        os.makedirs(os.path.join(wt, '_out'), exist_ok=True)
        shutil.copy(os.path.join(d, 'demo.py'), os.path.join(wt, '_out', 'demo.py'))
        rc0, out0 = sh(f'{PY} _out/demo.py', cwd=wt, env=env)
        rca, outa = sh(f'git apply {os.path.join(d, "patch.diff")}', cwd=wt)
        if rca:
            res['error'] = 'patch does not apply: ' + outa[-300:]
            return res
        rc1, out1 = sh(f'{PY} _out/demo.py', cwd=wt, env=env)
        rct, outt = sh(f'{PY} -m pytest -q -p no:cacheprovider 2>&1 | tail -1', cwd=wt, env=env)
        imp = sh(f'{PY} -c "import wcmatch; print(wcmatch.__file__)"', cwd=wt, env=env)[1].strip()
        res.update({'demo_without': rc0, 'demo_with': rc1, 'tests_tail': outt.strip(), 'imports_from': imp,
                    'demo_with_output': out1.strip().splitlines()[:3]})
        res['confirmed'] = rc0 == 0 and rc1 == 1 and all(t in outt for t in BASE_TAIL) and imp.startswith(wt)
    finally:
        sh(f'git -C /repo worktree remove --force {wt}')
        shutil.rmtree(tmp, ignore_errors=True)
    return res


def detect_one(sid: str) -> dict:
    d = os.path.join(SEEDED, sid)
    tmp = tempfile.mkdtemp(prefix='wcverif-seed-')
    res = {'id': sid, 'fired': {}, 'errors': {}}
    try:
        shutil.copytree('/repo/wcmatch', os.path.join(tmp, 'wcmatch'))
        rc, out = sh(f'patch -p1 -s -d {tmp} < {os.path.join(d, "patch.diff")}')
        if rc:
            res['error'] = 'patch failed: ' + out[-200:]
            return res
        with open(os.path.join(d, 'meta.json'), encoding='utf-8') as fh:
            meta = json.load(fh)
        for n in range(1, 21):
            p = f'C{n:02d}'
            rc, out = sh(f'{VERIF}/check {p} --repo {tmp} --no-evidence --replay-dir {tmp}/replay')
            if rc == 1:
                res['fired'][p] = [ln.split('construct: ', 1)[1].strip() for ln in out.splitlines() if 'construct: ' in ln][:4]
            elif rc == 2:
                res['errors'][p] = [ln for ln in out.splitlines() if 'ANALYSIS-ERROR' in ln][:1]
        res['target'] = meta.get('property')
        res['caught_by_target'] = meta.get('property') in res['fired']
    finally:
        shutil.rmtree(tmp, ignore_errors=True)
    return res


def main() -> int:
    os.makedirs(SEEDED, exist_ok=True)
    cmd = sys.argv[1] if len(sys.argv) > 1 else ''
    if cmd == 'import':
        do_import(sys.argv[2], sys.argv[3])
        return 0
    if cmd in ('confirm', 'detect'):
        fn = confirm_one if cmd == 'confirm' else detect_one
        sel = ids(sys.argv[2:])
        with ProcessPoolExecutor(max_workers=4 if cmd == 'confirm' else 8) as ex:
            results = list(ex.map(fn, sel))
        for r in results:
            mp = os.path.join(SEEDED, r['id'], 'meta.json')
            with open(mp, encoding='utf-8') as fh:
                meta = json.load(fh)
            if cmd == 'confirm':
                meta['confirmed'] = {k: r.get(k) for k in ('confirmed', 'demo_without', 'demo_with', 'tests_tail', 'error') if k in r}
                meta['what_was_run'] = ('scratch worktree of /repo HEAD: demo.py before the patch (exit 0 expected), git apply patch.diff, demo.py '
                                        '(exit 1 expected), full test suite (2 failed / 1194 passed expected)')
                print(r['id'], 'CONFIRMED' if r.get('confirmed') else 'NOT-CONFIRMED', r.get('demo_without'), r.get('demo_with'), r.get('tests_tail'), r.get('error', ''))
            else:
                meta['detection'] = {'fired': r.get('fired'), 'analysis_errors': r.get('errors'), 'caught_by_target_property': r.get('caught_by_target')}
                print(r['id'], 'target', r.get('target'), 'CAUGHT' if r.get('caught_by_target') else ('caught-elsewhere' if r.get('fired') else 'MISSED'),
                      {k: v[:2] for k, v in (r.get('fired') or {}).items()}, r.get('errors') or '', r.get('error', ''))
            with open(mp, 'w', encoding='utf-8') as fh:
                json.dump(meta, fh, indent=1)
        return 0
    print(__doc__)
    return 2


if __name__ == '__main__':
    sys.exit(main())
