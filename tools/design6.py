#!/venv/bin/python
"""Regenerate section 6 of DESIGN.md ("as built") from the narrative below plus the recorded results under seeded/ and neutral/."""
from __future__ import annotations

import glob
import json
import os
import subprocess

V = os.path.dirname(os.path.dirname(os.path.abspath(__file__)))

HEAD = r'''## 6. As built: what changed against the plan, findings, seeded changes, neutral refactorings, what catches what

Sections 1-5 above are the plan written before any code. This section records what the implementation actually is.
Where the two disagree, this section is right.

### 6.0 The main correction made after the first build: rules decide *values*, not spellings

The first complete version of the checker (end of session 2) passed on the tree, caught 115/115 of its own variants and 59/60 of
the first round of independent mutants -- and then **raised an alarm on 32 of the first 40 behaviour-preserving refactorings**
that independent sub-agents wrote (6.7). Those were all false alarms of the checker: its "shape" rules compared normalised source text
of small expressions, looked conditions up by the text of their atoms (`c == '/'`, `self.pathname`), found variables by name
(`result`, `value`, `is_bytes`, `matched`) and counted syntactic sites against floors. A rule of that kind also fires on an edit
that leaves behaviour unchanged, which the brief forbids. None of those alarms was recorded as a finding; the machinery was corrected:

* **canonical forms** (`canon.py`, applied to every parsed module before any rule or CFG sees it): `x == a or x == b` ≡ `x in (a, b)`
  (sorted, de-duplicated, also `!=`/`not in` under `and`), `not (a == b)` ≡ `a != b`, `if not A: X else: Y` ≡ `if A: Y else: X` (also for
  conditional expressions and `!=` tests), `(e & F) != 0` ≡ `bool(e & F)`, `x = x | E` ≡ `x |= E`, operands of `A | B | C` sorted. Only
  equivalences that hold for every value are applied; operands that get duplicated or dropped must be pure.
* **decision tables with effects** (`symeval.py`): a path-sensitive abstract interpretation of ONE function body at a time -- a
  syntax-directed enumeration of its control paths over an abstract domain of provenance-named values, constants and flag bit-vectors. It
  is not execution: nothing of wcmatch is imported or run, loops are abstracted (one arbitrary iteration or skipped), callees outside the
  rule's vocabulary are summarised in place, no path condition is ever handed to a solver -- feasibility is decided only by syntactic
  facts (mutually exclusive constant comparisons, `is None` vs truthiness). A function is evaluated from its entry with every parameter symbolic;
  each path yields its decisions, its result and the *ordered events* it performs: calls (callee named by what it resolves to, receiver
  and arguments as values), yields, attribute stores, item stores, raises, list creations, end-of-iteration states. A value is named by
  its provenance (`os.fspath(root_dir)`, `elem(self.include).fullmatch(self.filename)`, `bit:flags:0x40`), never by the local that
  holds it. Consequences: renaming locals, extracting or inlining a local, turning `if/else` into a conditional expression, early
  returns, guard clauses, merged or split conditions all give the *same* table.
* **helpers are followed by vocabulary**: each table rule names the callees that are its vocabulary (they stay call events); any other
  package function or method met on the way -- a helper somebody extracted, a nested closure, a generator delegated to with
  `yield from` -- is evaluated in place. A constant `dict` indexed by an unknown key is case-split over its keys, which makes a
  table-driven dispatch indistinguishable from an `if/elif` chain.
* **search loops and `any()`** evaluate to the same atom `any(comp(<predicate of an element> for <iterable>))`; list comprehensions with
  filters and accumulate-loops are both reduced to "kept / filtered" per element.
* **loops** are abstracted soundly: whatever the body (re)binds is unknown on entry (`once` mode: one arbitrary iteration is evaluated and
  its hand-over state recorded), or the body is skipped and only its effects on variables forgotten (`skip` mode, used for the code after
  a loop). Lists and sets created by the code are modelled (`append` is applied; a list filled in a loop or handed to code that is not
  followed becomes "known prefix + unknown rest"; an `append` afterwards makes it certainly non-empty).
* **program slices** (`slicer.py`): for big functions (`Glob.__init__`, `_GlobSplit.split`, `WcParse.parse_extend`) the table is taken of
  the backward slice for the attributes or the call site in question -- the statements that feed it and the tests that guard it --
  so the table stays small however long the function is. Exits may be dropped when the claim is of the form "on every path that
  reaches the end ...". A closure pulls the enclosing variables it reads; an object handed to a call counts as possibly changed.
* **exception handlers** are explored (`explore_handlers`): a `try` forks into "body ran" and, per handler, "body failed at once".
* **object states**: methods of `_Match` are tabulated once per state that `__init__` can produce (`ptype` ↔ type of the file name),
  derived from the table of `__init__`, not assumed.
* **regexes** are compared as languages or as normalised syntax (`x{2}` ≡ `xx`), never as text; group roles of `RE_NORM` are recognised
  by the language of the group.
* floors that merely counted sites were lowered or replaced by "the table must reach these cases".

After the rewrite all 40 refactorings of the first set are silent, and of a second, unseen set of 40 written afterwards by fresh
sub-agents 31 were silent at the first attempt (6.7); the remaining ones exposed the last text-based rules, which were converted too.
A third unseen set (T, 40 more, with emphasis on helper extraction, generator helpers, renamed parameters and tuple unpacking) was
silent on 25 at first attempt; a fourth (U, 40, combined clean-ups) is reported in 6.7. What each residue taught, and the general
mechanism added for it (never a special case for the patch):

* **pinned vocabulary** (`vocabulary.py`): the functions, classes and parameter names of the package at the pinned commit. The rules
  speak in this vocabulary. A function that is *not* in it -- a helper somebody extracted later -- is never an event in a table: it is
  inlined, at the AST level (`unhelper.py`: procedure, value, expression, `yield from` generator and `for x in helper(..)` loop-generator
  helpers; locals renamed apart; a value helper used inside a larger expression is hoisted to the statement before), and what cannot be
  inlined structurally is followed by the evaluator. A parameter of a pinned function that was renamed (same arity) is renamed back for
  the analysis, with the keyword arguments of its callers (`restore_param_names`). Writer-set rules attribute a write made in an
  extracted helper to the pinned methods that call it (`pinned_writers`).
* **records** (`nt.py`, K8): `_GlobPart` is read by field name, by index and -- after a refactoring -- by unpacking. A local type
  inference over the annotations and `# type:` comments the code already carries (parameter `part: _GlobPart`, `rest: list[_GlobPart]`,
  `self.pattern  # type: list[list[_GlobPart]]`, results of `.pop()`, indexing, slicing, iteration, starred unpacking) decides which
  expressions are records; for those, `x[k]` becomes `x.<field k>`, `a, b, ... = x` becomes the field reads, `h, *t = xs` becomes
  `t = xs[:]; h = t.pop(0)`. Nothing is rewritten where the type is not known.
* **K9** `yield from (E for a in A for b in B if c)` is the loop nest that yields `E`; **K10** a closure reading an integer of the
  enclosing function that is chosen together with a boolean flag (`other_esc = 5` in the bytes arm, `6` in the str arm) reads
  `5 if is_bytes else 6`.
* the **slicer** keeps an exit that holds the site of interest and every exit that precedes it (`if c: return` guards everything after
  it) -- early-return style gave wrong guards before; **type guards** are resolved through locals (`is_bytes = isinstance(x, bytes)`;
  `if is_bytes:`) and `1 if is_bytes else 0` is accepted as a twin index.
* `_glob_dir` (entry verdict, descent, recursion arguments), `_pathlib_norm` (strip rule) and the separator arm of `_sequence` became
  decision tables; they had been the last rules that found their subject by the name of a local.

The fourth set (U: combined clean-ups, 21 of 40 silent at first attempt) and the fifth (V: same brief as U, written after the U fixes,
30 of 40 silent at first attempt) added, again as general mechanisms:

* evaluator: the walrus operator; `for .. else` search loops (`for p in xs: if P: break` / `else: return False` is `if not any(P)`); the state
  after a `break` is the state at the break (only a loop that may go on is weakened); appends to an unknown list are remembered, so
  `''.join(rest + [x])` and `''.join(rest) + x` are the same value; `del xs[a:b]` is an effect like a mutator call; pure methods of
  constant strings are folded (`'**'.encode('latin-1')`); `TABLE.get(flags & MASK)` and `TABLE[flags & MASK]` case-split on the few
  undecided bits; `a | (flags & BIT)` with two flag words case-splits on the small one.
* inliner: closures defined in the function (with `nonlocal`), `@staticmethod` helpers, generator helpers that leave their final loop by
  `return`; K12 `for x in E: yield x` = `yield from E` (an equivalence for every consumer that iterates; it differs only under
  `generator.send/throw`, which no property here observes); K8 also for records returned by a call (`a, b, .. = rest.pop(0)`).
* rules rebuilt on tables or events: capture of `**` in `_handle_star`; look-ahead / put-back pairing; the fragment of `_handle_dot` (found by
  what is appended, however it is spelled); `clean_up_inverse` by the value it writes back; the sibling comparison of the two `parse_extend`
  scanners (per-character summary of one loop iteration instead of source text); `expand`, `expand_braces`, `is_magic`, `escape`, `get_case`
  (dict dispatch), `_iter_patterns` (de-duplication), the automatic NOUNIQUE switch, `_is_unique`, the existence gate of `_Match.match`, the
  link verdict of `_fs_match`, `_sequence_range_check` (the comparison is judged on the three orderings of two end points, so `v2 < v1` and
  `not v1 <= v2` are the same), bracket extents (what each `_sequence` consumes before its scan loop for every pair of first characters,
  read off its prologue table, replaces a syntactic extraction of if/elif stages; `for c in i` is a scan loop like `while c != ']'`).
* condition guards in the remaining CFG rules are read as sets of constants (`c in ('/', '\\')` false = both `c == '/'` and `c == '\\'`
  false) and through locals (`is_abs`, `is_bytes`).
* a decision function that tests a condition outside the vocabulary of its specification is judged on the known atoms (a result that
  needs the extra condition disagrees with the specification and is a violation; before, it was "not evaluable").
What is still syntactic is listed in 6.5.

### 6.1 Engine as built (`/verif/wcverif/`, stdlib only, ~14 k lines)

| module | role |
|--------|------|
| `model.py` | loader, module-level constant resolver (`ConstEval`: now also comprehensions over constants and pure str/bytes/dict methods), function/class index, name resolution |
| `canon.py`, `nt.py` | canonical forms K1-K7, K9, K10 and the record canonicalisation K8 (6.0), applied at load time |
| `vocabulary.py`, `unhelper.py` | pinned vocabulary of functions / classes / parameter names; AST-level inlining of helpers that are not part of it; parameter names restored |
| `cfg.py`, `pathq.py` | CFG (one `cond` node per short-circuit atom, loops, try/finally, yields, exceptional edges), dominators, `guards(node)` -- still used by the dominance / typestate / exception-escape / definite-assignment rules |
| `rx.py` | regex-fragment domain: structural facts and *contextual language equivalence* with look-aheads, `^`, `$`, `\Z` by a derivative construction; reports the shortest distinguishing word |
| `symeval.py`, `tables.py` | decision tables with events (6.0); symbolic flag words (`BV`: forced bits + "equals the caller's bit"); comparison of a table with a specification oracle over partial valuations, with mutually exclusive atom groups |
| `slicer.py` | backward slices of a function body for variables / a call site |
| `boolform.py` | propositional equivalence of conditions; mutation-aware inlining of single-assignment locals (for the remaining syntactic rules) |
| `callgraph.py`, `excflow.py` | call resolution with light type inference; exception-escape least fixpoint (C10) |
| `report.py`, `cli.py`, `registry.py` | obligations, floors, known findings, evidence, exit protocol; a rule that cannot be evaluated is reported (`ANALYSIS-ERROR`, exit 2) without hiding the other rules |
| `variants.py` | both-ways self-test (6.6) |
| `rules/*.py` | the rules; the value-based ones live in `pipeline.py` (translate / compile_pattern), `ginit.py` (Glob.__init__), `matchrules.py` (_Match, WcRegexp, Glob._match_excluded), `seqrules.py` (bracket scanners, WcParse.root tokens, split points), `common.py` (table helpers) |

All caches live on the analysed objects; an early version keyed caches by `id()` and the self-test exposed cross-contamination.

mypy: the repository's own environment ships mypy with `strict = true`. It is run by C18-R7 as an **advisory cross-reference only**
(its str/bytes diagnostics are written into the evidence). It had been a verdict; a neutral refactoring that replaces an inline
`isinstance(root_dir, bytes)` by a boolean local makes mypy lose the narrowing and report exactly the same `[assignment]` diagnostic as
a genuine mix-up (seeded C18-m3), so the diagnostics cannot decide the property. The verdict is now the slice table of
`WcMatch.__init__` (`typed-defaults`), which catches C18-m3 and is silent on the refactoring.

### 6.2 Rule inventory as built

Rule identifiers are those of section 3; `(+)` = added after the plan. What each rule decides is in its `rules_applied` text in
`evidence/<ID>.json` (regenerated on every run). Main additions and replacements:

* C01: R2 extglob dispatch now from per-site slices of every `<template>.format(<joined alternatives>)` call; R3ii plus table of
  `_Match.match` applications; R6 `clean_up_inverse` table; R7 bracket prologue / epilogue / scan-loop tables; (+) C03-R3.
* C02: R3 = token table of `WcParse.root` (order of effects for `/` and for escapes) + emission rules of `parse_extend` / `_handle_star`;
  R4 = scan-loop tables of the three `_sequence`; R6 implicit `**` part by site slice; R7 tail table of translate / compile_pattern;
  R9 tables of the three `_references`; (+) C01-R6.
* C03: R3 (+) globstar always re-arms the segment start; R4 exclusion flag flow on the loop tables; R5 NODOTDIR / scandotdir by slices.
* C04: R3 follow rule from the tables of `compile` and `_match_real`; R6 directory-slash tables on both sides; R7 rooted file-system
  arguments; (+) C02-R6, C13-R3.
* C05: R2 case-fold tables; R3 `_GlobSplit.store` / `is_magic` tables, (+) split points; R4 `_iter` / `_get_starting_paths` tables, `.`/`..`
  whole-name tests; R5 `_glob` table; (+) C12-R5.
* C06: R3 `_fs_match` tables (which parts are inspected, cache discipline, per-capture base); (+) C05-R5, C04-R9, C19-R1.
* C07: R1/R3 pipeline loop and tail tables; R4 include/exclude tables; R7 `WcRegexp.match/filter` tables; (+) C02-R7.
* C08: R3 marker handling incl. (+) "a bracket cannot spell `(?#)`"; R4 sibling agreement of translate / compile_pattern by comparing
  normalised decision tables and effects; (+) C01-R3ii.
* C09: R1 dispatch characters (bracket-only characters are harmless because `[` is escaped); (+) C20-R3.
* C10: R2 decode sites by value; (+) C02-R7. C11: R2 budget initialisation slice of `Glob.__init__`; R4 clamp rule over every function; (+) C08-R4.
* C12: (+) R7 descriptor presence is an identity test; R6 same-name forwarding on call events; `root_dir` slice.
* C13: R2 `Glob.glob` yields and `_format_path` tables. C14/C15: `_walk` table with handlers: pruning, hooks, abort discipline;
  `_compile`, `compare_*`, `_parse_flags` tables. C16: forwarding tables with helper following. C17: (+) C02-R2/R3, C07-R1, C08-R4.
* C18: R3 latin-1 pairing by value (per-site slices of `_GlobSplit.split`); R5 type test before parsing; R7 typed defaults (mypy advisory).
* C19: R2 `_compile` table; R5 per-name `_Match`. C20: R1 requires the byte mask for octal escapes; (+) C14-R1, C08-R4.

'''

FINDINGS = r'''### 6.3 Findings: genuine defects of wcmatch found by the checks

Each was reproduced against the real code. Repaired ones are `fix:` commits in `/repo` (test-suite unchanged: 1194 pass + the 2
pre-existing failures) and `fixed:` lines in `known_findings.json`; the checks pass on the repaired tree and fire again on the
regression variants of the self-test / on the parent commit.

| # | defect (witness) | rule | disposition |
|---|------------------|------|-------------|
| F1 | `WcMatch.__init__(limit=_wcparse.PATHNAME)`: `WcMatch('.', '{1..40}', flags=BRACE)` raised | C11-R1 | fixed 952771f |
| F2 | `limit -= len(negative)` could reach 0 = unlimited | C11-R4 | fixed 2215f80 |
| F3 | `Glob._iter_patterns` restarted `total = 0` per pass | C11-R5 | fixed 70dd0c0 |
| F4 | `Glob._is_unique` stored the unfolded key: `glob(['*b','A*'], I)` returned `Ab` twice | C13-R1 | fixed e32eb80 |
| F5 | `Glob.__init__` used the windows NODIR / dot-norm regexes unconditionally | C04-R2 | fixed 7a279f4 |
| F6 | `Glob._get_matcher` used `Pattern.match`: `glob('[a]')` returned `a\n` | C01-R3ii | fixed 926c626 |
| F7 | capturing group in `_PATH_GSTAR_DOTMATCH` | C08-R2 | fixed 0181730 |
| F8 | `$` inside look-aheads: `_EOP`, `_PATH_EOP`, `_PATH_GSTAR_DOTMATCH` | C01-R1 / C02-R1 | fixed 6c18d5c, e301e33 |
| F8a | `_NO_DIR` still has `$` (text pinned by `test_glob_translate`): `globmatch('.\n', '*', DOTGLOB)` is False | C03-R1 | **open** |
| F8b | `_GLOBSTAR_DIV` accepts `$`: `globmatch('a\n', '**/?', GLOBSTAR)` is True | C02-R1 | **open** (pinned text) |
| F9 | `_PATH_STAR_NO_DOTMATCH` guard inside an optional group: `globmatch('.a', '*?a')` True | C03-R1 | **open** (pinned text) |
| F10 | START consumed by nullable groups: `globmatch('.a', '?(x)*', E)` True | C03-R3b | **open** |
| F11 | START guard inside repeating groups: `fnmatch('a.b', '+(?)', E)` False | C03-R3c | **open** |
| F12/F14 | splitters closed a bracket at a leading `]` / did not know POSIX classes | C07-R6 | fixed 4e8fd0a |
| F13 | `\U00110000` -> ValueError, `\UFFFFFFFF` -> OverflowError | C10-R2 | fixed d1cef1f |
| F15 | NODIR regexes lacked DOTALL: `glob('*', NODIR)` returned the directory `a\nb` | C02-R7 | fixed 621edc3 |
| F16 | `.`/`..` faked before `scandir`: with a file `f`, `glob('f/..')` returned `['f/..']` | C05-R4 | fixed 6c76f81 |
| F18 | FORCEWIN name mode: `/` inside brackets does not match `\`: `fnmatch('a\\b', 'a[/]b', W)` False | C17-R8 | **open**: the obvious repair changes the meaning of ranges ending in `/` |
| F19 | `glob('name', dir_fd=0)` looked a literal pattern up relative to the cwd: `_lexists` tested the descriptor for truthiness (magic patterns, scanned by `_iter`, used it) | C12-R7 (+) | fixed ca6a3d4 |
| F20 | `fnmatch.translate('[(?#)x]')` returned `[x]`, `'[(?#)]'` an unterminated set: bracket text could spell the internal `(?#)` marker that translate strips; `fnmatch()` itself matched the four characters (reported by a sub-agent as an aside, reproduced) | C08-R3 (+) | fixed 91ccb9a (`#` is escaped inside brackets like the set operators) |
| F21 | `globmatch('a/b/lnk/deep/f.txt', '**/b/**/f.txt', G, REALPATH)` True for a symlinked `lnk`, while `glob` does not return it: `_fs_match` kept the path prefix of the first `**` capture for later captures (sub-agent aside, reproduced) | C06-R3 | fixed 1c025f7 |
| F22 | `fnmatch.translate('[a-[:alpha:][:digit:]]')` did not compile (`bad escape \A`) and `fnmatch('b', '[a-[:alpha:]!]')` was False: `WcParse._sequence` kept `end_range` set after a POSIX class had consumed the would-be range end, so the next class / character was treated as a range end again (sub-agent aside, reproduced) | C01-R7 / C10-R5 `range-end-cleared-by-posix` (+) | fixed a990a18 |
| F23 | `fnmatch('b', '!(a)@(@(b))', E)`, `'!(a)?(!(b))'`, `'!(a)*(b/!(c))'` raised `re.error` (unbalanced regex, the defect named in the text of C10): `clean_up_inverse` zeroed the counter of open `!(…)` groups after scanning a *nested* list, so the placeholder of the outer list was never rewritten. The rule `clean_up_inverse/counter` had encoded `inv_ext = 0` as the expected behaviour; it now demands that the counter goes down by exactly the number of placeholders rewritten | C01-R6 (also under C10, C08) | fixed 37709ff |
| F24 | `m = glob.compile('*.txt'); del m._hash` succeeded (then `hash(m)` raises): `util.Immutable` closed `__setattr__` only (sub-agent aside, reproduced) | C19-R4 `Immutable.__delattr__/raises` (+) | fixed fc2ee0f |
| F25 | `glob.glob([], exclude='{1..100}', flags=BRACE, limit=10)` returns `[]` although 100 exclusions exceed the limit (`globmatch` with the same arguments raises): `Glob.__init__` returns before parsing anything when the inclusion list is empty (sub-agent aside, reproduced) | C11-R6 (+) | **open**: the string type is taken from the first inclusion pattern; the repair restructures the initialisation |
| F26 | `list(Path('/nonexistent').glob('{1..100}', flags=BRACE, limit=10)) == []`: `Path.glob` expands its patterns only for a directory (sub-agent aside, reproduced) | C11-R6 (+) | **open**: removing the guard changes what `Path(file).glob()` does; a behaviour decision |
| F27 | `kill()` from `on_validate_directory` still let the first file of that directory through: `_walk` went on to the file loop after the folder loop had been left because of the abort (sub-agent aside, reproduced; judged "within spec" in session 1, but C15 says nothing further is yielded) | C15-R4 `nothing-after-abort` (+): every poll of `is_aborted()` is its own unknown, monotone | fixed 0e31ce8 |
| F28 | with a regular file `f.txt`, `glob('f.txt/**', GLOBSTAR)` returned `['f.txt/']`; `glob('./', root_dir='/nonexistent')` returned `['./']`: `Glob.glob` used the literal first segment without checking it (sub-agent aside, reproduced; listed as "known, not detected" before) | C13-R2 `literal-start-is-real` (+) | fixed 4b6cf7c |
| F29 | `glob.glob(b'*', dir_fd=fd)` raised `TypeError` (str and bytes mixed): `os.scandir(fd)` reports str names whatever the pattern type (sub-agent aside, reproduced) | C05-R4 `names-have-the-pattern-type` (+) | fixed 2d4a735 |

Defects known but **not** detected by any rule (not listed in `known_findings.json`, which holds only what a check reports): `**(b)`
losing its group, the `**`+MATCHBASE dot leak, `[a-\f-b]` (after an *escaped* range end the next `-` is taken for a range delimiter:
`fnmatch('c', r'[a-\f-b]')` is False), `glob.escape('//?/UNC/server', unix=False)` leaving the `?` of an incomplete device prefix
unescaped while the parser treats it as a wildcard, `!(a)` followed by a nullable group matching too little, `expanduser` raising on an embedded NUL, the `**/` vs files
discrepancy of glob/globmatch, `MATCHBASE` without `PATHNAME` through `_wcparse` directly raising `UnboundLocalError` (not reachable
through the public flag masks; C10-R3 checks exactly that side condition).

False alarms met while building (all were the checker's fault and were corrected, none is a known finding): the 32+9 alarms on
neutral refactorings of 6.7 (see 6.0); handler order in `expand_braces` taken from an unordered walk; `_fs_match`'s `base` flagged as
unrooted; path-insensitive "exactly one of on_match/on_skip"; `\d` in `RE_NORM` includes non-ASCII digits; C08-R4 after sorting `|`
operands; id-keyed caches; the tail table of translate passing by luck because an `append` to a loop-filled list was not seen as
making it non-empty (found when a seeded mutant was *not* caught, fixed in the list model); mypy (6.1); a slice that dropped
`self.store(value, parts, …)` although it changes `parts` (arguments of calls now count as possibly changed).

'''

TAIL = r'''### 6.5 Declined / not decided (honest limits)

* Four of the 180 seeded changes are not reported by any check (`variants.DECLINED_SEEDED`), for stated reasons:
  `C09-m2` (`_get_win_drive`: `first += 1` dropped) and `C09-n1` (`consume_path_sep`: `count > 0` -> `count > 1`) sit in hand-written
  scanners whose correctness is arithmetic over positions / parities of a character run -- a rule that pins the constant would be a frozen
  source fragment, a sound rule needs a numeric domain over the scanner loop or execution; `C10-p1` (`_GlobSplit.split`: the empty-pattern
  fallback moved below the read of `parts[0]`) needs "the list is non-empty here" for every non-empty pattern, which is a fact about the
  scanner's output, not about the shape of the code; `C06-p3` (the symlink test moved from the caller of `_glob_dir` into the callee, after
  the listing, with a new parameter) changes the arity of a function of the pinned vocabulary: the table of `_glob_dir` is reported *not
  evaluable* (exit 2) -- undecided, which is honest but is not a detection, and deciding it needs an interprocedural effect order
  ("scandir before the link test") across a signature the rule does not know.
* Everything listed as "Not decided" in section 3 stays not decided: the *composition* of fragments for every pattern, result sets on
  real trees, Bash equivalence, thread interleavings, `re.error` from unbalanced output.
* Rules that are still syntactic (they look at statement structure, not at values) and could in principle alarm on an unusual
  refactoring: the START-typestate rule of `parse_extend` (C03-R3, CFG-based), the emission rules for `parse_extend` / `_handle_star`
  separators (C02-R3, CFG guards), the exception-escape and definite-assignment analyses (by design over the CFG), the recovery-pairing
  rule (C10-R4), the `base-rooted` part of C06-R3 and the rooted-argument rule C04-R7 (def-use over names, guards resolved through
  locals), the range-check guard of C10-R5, the budget-clamp contradiction rule (C11-R4, over every function), who-may-write rules, the
  string-building site finders of `frag.py`, the taint rule for pattern-derived characters (C01-R5). They compare conditions
  propositionally after canonicalisation and inline single-assignment locals, and none of the 200 neutral refactorings trips them any
  more, but they are not value-based. Each unseen set of refactorings so far found some rule of this kind (6.7); the next one may too.
* When a function grows beyond what its table can enumerate (`max_paths`), or an anchor disappears, the rule reports
  `ANALYSIS-ERROR` (exit 2): undecided, never a silent pass.

### 6.6 Both-ways self-test

`./check <ID> --tier thorough` = quick pass + `variants.run_variants_for(ID)`: every breaking variant that lists ID must make the
check exit 1 with a violated obligation whose key names the edited construct; every neutral variant must leave all 20 checks at
exit 0; every confirmed seeded mutant of the property (6.4) must be reported by the property's own check. A failure is
`ANALYSIS-ERROR` (exit 2). Every neutral refactoring of 6.7 must leave the property's check at exit 0. Current: 115/115 breaking variants caught, 20/20 neutral variants silent.

'''


def seeded_table() -> str:
    rows = []
    stats = {'total': 0, 'target': 0, 'declined': 0}
    for d in sorted(glob.glob(os.path.join(V, 'seeded', '*'))):
        mp = os.path.join(d, 'meta.json')
        if not os.path.exists(mp):
            continue
        m = json.load(open(mp))
        sid = os.path.basename(d)
        det = m.get('detection', {})
        fired = det.get('fired') or {}
        tgt = m.get('property')
        stats['total'] += 1
        if det.get('caught_by_target_property'):
            stats['target'] += 1
            first = (fired.get(tgt) or ['-'])[0]
            how = 'yes'
        elif fired:
            other = sorted(fired)[0]
            first = f'{(fired[other] or ["-"])[0]} (only under {", ".join(sorted(fired))})'
            how = 'other property'
        else:
            first = '-'
            how = '**no** (declined, 6.5)' if sid in ('C09-m2', 'C09-n1', 'C10-p1', 'C06-p3') else '**no**'
            stats['declined'] += 1
        rows.append(f'| {sid} | {(m.get("summary") or "")[:150].replace("|", "/")} | {how} | `{first}` |')
    head = ('### 6.4 Seeded changes (`/verif/seeded/`): independent mutants and what catches them\n\n'
            'Sub-agents were given only the text of one property and a private scratch worktree of /repo (nothing from /verif) and asked for\n'
            'up to three changes that break the property, still compile and keep the suite at 1194 passed / 2 failed, each with a\n'
            'demonstration program. Round 1 (`<P>-m<k>`): one agent per property, 60 mutants. Rounds 2/3 (`<P>-n<k>`): a fresh agent per\n'
            'property that was also told the one-line summaries of round 1 and asked for different mechanisms, 60 more. Rounds 4/5\n'
            '(`<P>-p<k>`, `<P>-q<k>`): fresh agents again, told the anchors and all earlier summaries, asked for subtle changes deep in the\n'
            'machinery, 60 more (and asked to report defects of the unmodified library they met: F22-F29 come from those asides). Every\n'
            'mutant was re-confirmed by `tools/seeded.py confirm` in a fresh scratch worktree (demo exits 0 before, 1 after, suite\n'
            'unchanged) and run through all 20 checks by `tools/seeded.py detect` (scratch copy + `--repo`; nothing is ever applied to\n'
            '/repo). Patches that stopped applying after a repair of /repo were rebased (by hand or by a sub-agent given only the patch and a\n'
            'worktree) and re-confirmed. The patches are kept with their demonstration and `meta.json` (property, summary, what it needs,\n'
            'what was run, which obligations fired).\n\n'
            f'Current state: **{stats["target"]} of {stats["total"]} are reported by the target property\'s own check**; '
            f'{stats["total"] - stats["target"] - stats["declined"]} only by another property; {stats["declined"]} by none.\n'
            'History (first pass = before anything was changed for that round): round 1 30/60 by the target property (after strengthening\n'
            '59/60); round 2 18/36 and 8 by none -- those led to the loop-body tables (scan loops, root tokens, split points, star\n'
            'epilogue), the descriptor-presence rule and F19; round 3 12/24, 5 by none; round 4 14/36 by the target property, 15 only by\n'
            'another property (registry mappings added where the rule is about the property), 7 by none; round 5 11/24, 4 elsewhere, 9 by\n'
            'none. What the misses led to: every attribute store of a parser token is an event (C16-n2); module state written through a\n'
            'local alias (C19-q1); unknown conditions in decision functions are violations (C16-p2); census of the scan loops that fold runs\n'
            '(C17-p3), of the sites that touch the capture marker (C08-q1), of `DIR_FLAGS` (C12-q2) and of the handler class in the walker\n'
            '(C15-q2); range end cleared by every range check (C01-q3); equality of matchers by value (C19-q2); the expansion is\n'
            'unavoidable (C11-q2, and F25/F26 on the tree itself); escapes consume what they escape (C09-q2); the remainder is tested before\n'
            'it is popped (C10-p3); `imatch` without its own iteration is a violation, not an obstacle (C15-q3).\n\n'
            '| id | change | caught by target check | first violated obligation |\n|----|--------|------------------------|---------------------------|\n')
    return head + '\n'.join(rows) + '\n\n'


def neutral_table() -> str:
    rows = []
    n = ok = 0
    for d in sorted(glob.glob(os.path.join(V, 'neutral', '*'))):
        rp = os.path.join(d, 'result.json')
        note = ''
        np_ = os.path.join(d, 'note.txt')
        if os.path.exists(np_):
            note = ' '.join(open(np_, encoding='utf-8', errors='replace').read().split())[:140].replace('|', '/')
        if not os.path.exists(rp):
            continue
        r = json.load(open(rp))
        n += 1
        silent = not r.get('alarms') and not r.get('errors') and not r.get('error')
        ok += silent
        rows.append(f'| {os.path.basename(d)} | {note} | {"silent" if silent else "ALARM " + ", ".join(sorted(r.get("alarms") or r.get("errors") or {}))} |')
    head = ('### 6.7 Behaviour-preserving refactorings (`/verif/neutral/`): the checks must stay silent\n\n'
            'Sub-agents were given a private scratch worktree and an area of the code, and asked for five independent refactorings each that\n'
            'change nothing observable (different techniques: helper extraction, inlining, renames, flipped conditions, guard clauses,\n'
            'loops <-> any()/comprehensions, `in` vs `or`, flag idioms, regex respelling with the same language, dict dispatch ...), each\n'
            'verified by the unchanged test-suite result and by a differential harness of their own. `tools/neutral.py run` applies each to a\n'
            'scratch copy and runs all 20 checks. First-attempt results, each set written by fresh agents after the fixes for the previous one:\n\n'
            '| set | brief | silent at first attempt |\n|-----|-------|------------------------|\n'
            '| R1-R8 | any clean-up, before the value-based rewrite | 8 / 40 |\n'
            '| N1-N8 | same brief, after the rewrite | 31 / 40 |\n'
            '| T1-T8 | emphasis on extracted helpers, generator helpers, renamed parameters, tuple unpacking | 25 / 40 |\n'
            '| U1-U8 | combined clean-ups (several techniques per diff), walrus, try/else, dict dispatch | 21 / 40 |\n'
            '| V1-V8 | the same brief as U | 30 / 40 |\n\n'
            'Every alarm was a false alarm of the checker and was removed by a general mechanism (6.0), never by special-casing the patch;\n'
            'none is a known finding. The trend says what to expect from a sixth set: most refactorings are silent, and a rule that still\n'
            'reads statement structure (6.5) will be hit now and then. Patches were rebased when a repair of /repo touched their context.\n\n'
            f'Current state: **{ok} of {n} refactorings leave all 20 checks at exit 0.**\n\n'
            '| id | what it does | result |\n|----|--------------|--------|\n')
    return head + '\n'.join(rows) + '\n'


def main() -> None:
    p = os.path.join(V, 'DESIGN.md')
    s = open(p, encoding='utf-8').read()
    i = s.index('## 6. As built')
    s = s[:i] + HEAD + FINDINGS + seeded_table() + TAIL + neutral_table()
    open(p, 'w', encoding='utf-8').write(s)
    print('DESIGN.md section 6 regenerated:', len(s.splitlines()), 'lines')


if __name__ == '__main__':
    main()
