#!/venv/bin/python
"""Behaviour-preserving refactorings written by independent sub-agents: every check must stay at exit 0 on them.

  tools/neutral.py import <agent_out_dir> <TAG>    copy r<k>.diff / r<k>.txt into /verif/neutral/<TAG>-r<k>/
  tools/neutral.py run [ids...]                     apply each to a scratch copy of /repo/wcmatch and run all 20 quick checks
"""
from __future__ import annotations

import json
import os
import shutil
import subprocess
import sys
import tempfile
from concurrent.futures import ProcessPoolExecutor

VERIF = os.path.dirname(os.path.dirname(os.path.abspath(__file__)))
ROOT = os.path.join(VERIF, 'neutral')


def sh(cmd: str) -> tuple[int, str]:
    p = subprocess.run(cmd, shell=True, capture_output=True, text=True, timeout=900)
    return p.returncode, p.stdout + p.stderr


def run_one(nid: str) -> dict:
    d = os.path.join(ROOT, nid)
    tmp = tempfile.mkdtemp(prefix='wcverif-neu-')
    res = {'id': nid, 'alarms': {}, 'errors': {}}
    try:
        shutil.copytree('/repo/wcmatch', os.path.join(tmp, 'wcmatch'))
        rc, out = sh(f'patch -p1 -s -d {tmp} < {os.path.join(d, "patch.diff")}')
        if rc:
            res['error'] = 'patch failed'
            return res
        for n in range(1, 21):
            p = f'C{n:02d}'
            rc, out = sh(f'{VERIF}/check {p} --repo {tmp} --no-evidence --replay-dir {tmp}/replay')
            if rc == 1:
                res['alarms'][p] = [ln.split('construct: ', 1)[1].strip() for ln in out.splitlines() if 'construct: ' in ln]
            elif rc == 2:
                res['errors'][p] = [ln[:200] for ln in out.splitlines() if 'ANALYSIS-ERROR' in ln][:3]
    finally:
        shutil.rmtree(tmp, ignore_errors=True)
    return res


def main() -> int:
    os.makedirs(ROOT, exist_ok=True)
    cmd = sys.argv[1] if len(sys.argv) > 1 else ''
    if cmd == 'import':
        src, tag = sys.argv[2], sys.argv[3]
        for k in range(1, 9):
            dfile = os.path.join(src, f'r{k}.diff')
            if not os.path.exists(dfile) or os.path.getsize(dfile) == 0:
                continue
            dst = os.path.join(ROOT, f'{tag}-r{k}')
            os.makedirs(dst, exist_ok=True)
            shutil.copy(dfile, os.path.join(dst, 'patch.diff'))
            note = os.path.join(src, f'r{k}.txt')
            if os.path.exists(note):
                shutil.copy(note, os.path.join(dst, 'note.txt'))
        return 0
    if cmd == 'run':
        sel = sorted(d for d in os.listdir(ROOT) if os.path.isdir(os.path.join(ROOT, d)) and (len(sys.argv) < 3 or any(d.startswith(a) for a in sys.argv[2:])))
        with ProcessPoolExecutor(max_workers=8) as ex:
            results = list(ex.map(run_one, sel))
        bad = 0
        for r in results:
            with open(os.path.join(ROOT, r['id'], 'result.json'), 'w', encoding='utf-8') as fh:
                json.dump(r, fh, indent=1)
            if r.get('error') or r['alarms'] or r['errors']:
                bad += 1
                print(r['id'], 'ALARM' if r['alarms'] else ('NOT-EVALUABLE' if r['errors'] else r.get('error')), json.dumps(r['alarms'])[:600], json.dumps(r['errors'])[:400])
            else:
                print(r['id'], 'silent')
        print(f'{len(results) - bad}/{len(results)} neutral refactorings leave all 20 checks at exit 0')
        return 0 if not bad else 1
    print(__doc__)
    return 2


if __name__ == '__main__':
    sys.exit(main())
