#!/bin/sh
# tools/ntry.sh <neutral-or-seeded-id> <PROP> [extra check args]: run one check on a scratch copy with the patch applied
id=$1; shift; p=$1; shift
d=/verif/neutral/$id; [ -d "$d" ] || d=/verif/seeded/$id
t=$(mktemp -d /tmp/wcverif-try-XXXX)
cp -r /repo/wcmatch $t/wcmatch
patch -p1 -s -d $t < $d/patch.diff || { rm -rf $t; exit 3; }
/verif/check $p --repo $t --no-evidence --replay-dir $t/replay "$@"; rc=$?
rm -rf $t
exit $rc
