#!/bin/sh
# full regression of the checker: clean tree, self-test variants, seeded mutants, neutral refactorings
cd /verif
echo "== clean tree"; for n in 01 02 03 04 05 06 07 08 09 10 11 12 13 14 15 16 17 18 19 20; do ./check C$n --no-evidence >/tmp/regress_$n.txt 2>&1; rc=$?; [ $rc -ne 0 ] && echo "C$n rc=$rc" && tail -3 /tmp/regress_$n.txt; rm -f /tmp/regress_$n.txt; done
echo "== variants"; /venv/bin/python -B -m wcverif.variants 2>&1 | tail -8
echo "== seeded"; tools/seeded.py detect 2>&1 | grep -v " CAUGHT " | cut -c1-200
echo "== neutral"; tools/neutral.py run 2>&1 | grep -v " silent" | cut -c1-400
