#!/venv/bin/python
"""tools/edtry.py <PROP[,PROP]> <file under wcmatch/> <old text> <new text>: run checks on a scratch copy with one textual edit (development aid)."""
import os, shutil, subprocess, sys, tempfile
props, f, old, new = sys.argv[1].split(','), sys.argv[2], sys.argv[3], sys.argv[4]
tmp = tempfile.mkdtemp(prefix='wcverif-ed-')
try:
    shutil.copytree('/repo/wcmatch', tmp + '/wcmatch')
    p = f'{tmp}/wcmatch/{f}'
    s = open(p).read()
    if s.count(old) != 1:
        sys.exit(f'old text occurs {s.count(old)} times')
    open(p, 'w').write(s.replace(old, new))
    for pr in props:
        r = subprocess.run(f'/verif/check {pr} --repo {tmp} --no-evidence --replay-dir {tmp}/replay', shell=True, capture_output=True, text=True)
        lines = [l for l in r.stdout.splitlines() if l.startswith(('VIOLATION', 'ANALYSIS-ERROR')) or ' VIOLATED ' in l or l.startswith('  FAIL')]
        print(pr, 'rc', r.returncode, *[l[:230] for l in lines[:6]], sep='\n   ')
finally:
    shutil.rmtree(tmp, ignore_errors=True)
